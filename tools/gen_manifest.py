#!/usr/bin/env python3
"""Regenerates /verif/MANIFEST.json from the table below and validates it."""
import glob
import json
import os

here = os.path.dirname(os.path.abspath(__file__))
root = os.path.dirname(here)

# pid -> (level, technique, level_text, level_note, design_ref)
CHECKS = {
    "C15": ("model_checking",
            "explicit-state BFS over setPhaseOffset histories of real PSK objects + exhaustive enumeration of bounded integer domains",
            "Every PSK order 2..2^12 x 8 initial offsets x every setPhaseOffset history up to the depth bound, every square QAM 4..4^6, BPSK and QPSK are constructed on the implementation and EVERY minimum-distance pair (brute-force pairwise distances) is checked for a one-bit label difference; the Gray conversions are run on every integer of [0,2^20) (thorough 2^24) and on every integer < 2^62 with <= 3 set bits and its neighbours in four integer representations; count_bit_errors on all pairs of the <=2-bit values along every axis. A bounded-exhaustive statement, not a sample.",
            "Trusted: numpy integer arithmetic for the bit-loop reference, brute-force distance search with relative tie tolerance 1e-9. Integers outside the enumerated sets (>3 set bits above 2^24) are not covered.",
            "DESIGN.md section 3, C15"),
}

CHECKS["C07"] = ("fault_enumeration",
    "exhaustive crash-point and torn-write enumeration (E4 file layer) combined with deviation-bounded exploration of skips and clock jumps on the real runner, with unique-token exactly-once accounting",
    "For every scenario family (grids, rep_max 2..4 and 499/500/501/1001 around the 500-repetition save period, .pickle/.json, delete_partial_results on/off, restart with the same / raised rep_max / changed fixed value / changed unpacked values) EVERY placement of <=1 (thorough 2) crashes - before each _run_simulation call, before/after each open/mkdir/replace/remove/close and after EVERY byte prefix of each write - combined with <=1 skip and <=1 (2) clock jumps (forcing partial saves at arbitrary repetitions) is executed; after the final restart every variation must hold each durably saved or newly executed call token exactly once, with the requested repetition count, the final file must load, foreign partial results must be refused untouched.",
    "Crash model = process kill (completed writes durable, open-truncate durable, arbitrary prefix of an interrupted write); power-loss reordering is not modelled because the library never calls fsync. Trusted: token decoding of the durable image by the harness.",
    "DESIGN.md section 3, C07")
CHECKS["C05"] = ("model_checking",
    "stateless deviation-bounded exploration (every placement of <=D non-default answers of the user's iteration) of the real SimulationRunner.simulate() against a reference interpreter",
    "For every configuration of a finite family (parameter grids with 0-3 unpacked parameters, rep_max 1..4(5), every Boolean stop predicate on the repetition index and thresholds on the merged result, modes all/single index/simulate twice) EVERY answer vector of the scripted _run_simulation with at most D deviations (value change or SkipThisOne; D=3/2/1 quick, 4/3/2 thorough by size) is executed to completion on the implementation; exact call log, repetition counts, merged values, update and skip counts and all look-ups by fixed values are compared with the reference interpreter of the documented loop.",
    "Trusted: the reference interpreter in models/runner_model.py (30 lines). Not covered: parameter lists with duplicate values, simulate_in_parallel (needs an ipyparallel cluster), answer vectors with more deviations than the bound.",
    "DESIGN.md section 3, C05")

def _e1(pid, what, trusted, ref=None):
    CHECKS[pid] = ("exploration",
        "exhaustive enumeration of a stated finite product (configurations x deterministic input families) executed on the implementation against an independent reference",
        what, trusted, ref or "DESIGN.md section 3, %s" % pid)

_e1("C01", "Every modulator object of the family (BPSK, QPSK, PSK 2..2^10 x 8 offsets constructed and after setPhaseOffset, QAM 4..4^6) x every index 0..M-1 in 8 presentations x every invalid-index pattern x every constructed cardinality 0..4100 x a boundary-seeking sample family (each Voronoi-adjacent pair probed at +-delta for delta/dmin down to 1e-11, lattice, rays) is run through modulate/demodulate and compared with a brute-force nearest-point oracle with an explicit tie margin.",
    "Trusted: brute-force argmin oracle and its tie margin (1e-12 dmin^2 + 64 eps d^2). Samples outside the stated family are not covered; exact ties are excluded by the property.")
_e1("C03", "Every member of stated finite families of tap profiles (all ordered 1-3 tap tuples on a Ts/4 grid incl. unsorted/colliding), antenna shapes, directions, fading generators, input signals, ALL slice/index subcarrier selections for fft 4,5,8,12 and every history of <=3 consecutive transmissions on one channel object (TdlChannel, Su/SuMimo, Mu/MuMimo with path loss) is executed; outputs are compared with a nested-loop time-varying convolution / explicit DFT of the impulse response reported after the transmission.",
    "Trusted: the nested-loop convolution and DFT oracles; Jakes phases are read back from the seeded generator objects for the sample-position relation. Continuous inputs outside the families are not covered.")
_e1("C04", "Every scheme (Blast, MRC, MRT, SVD, GMD, Alamouti) x every shape Nt<=Nr<=4 x every {1,j,-1}/{0,+-1,+-j} small-entry matrix, generic members and nearly dependent members up to kappa 1e4 x block lengths: decode(H encode(d)) = d, transmit energy, ZF/MMSE defining equations and the MMSE->ZF limit are checked with condition-scaled tolerances.",
    "Trusted: numpy SVD/QR in the oracle, tolerance constant c=1e3. Matrices outside the families / kappa > 1e4 are excluded and counted.")
_e1("C09", "Every layout (K,n) of the stated set x channel family members (generic, weak user, weak antenna, nearly dependent) x powers x noise x external-interference rank/power x every stream-reduction metric and stream count: block-diagonality, per-user power, receive-filter inversion, reference water-filling, interference removal and metric-optimality of the chosen stream count are checked.",
    "Trusted: QR-based null-space and water-filling reference in the check. Effective-throughput competitor uses the library's own theoretical PER (C16 territory), stated in the evidence.")
_e1("C11", "Full product of channel class (plain / external interference) x antenna layouts x every Ns tuple in {1,2}^K x path loss x noise (None,0,0.1,2) x pe x IC/JP x generic-family members, through the channel object AND through IA solvers bound to it: every reported SINR, covariance matrix, dB value and capacity is compared with a scalar-sum first-principles computation from the raw matrices.",
    "Trusted: pure-Python nested-loop SINR oracle. Setter-history coherence of the channel object is C08's subject, objects here are built fresh.")
_e1("C12", "Every ordered gain tuple of length 1..4 (thorough 5) over a 6-value alphabet spanning 7 decades incl. ties x 5 total powers x 3 noise x 3 Es, switch-on boundary powers +-2^-40 and +-1 ulp, generic vectors up to length 16: non-negativity (exact), sum, KKT certificate, water-level consistency, reference allocation, simplex-grid and pairwise-transfer competitors, permutation equivariance.",
    "Trusted: fsum-based reference water-filling and the competitor grid (a finite set of competitors, not all allocations; optimality is additionally certified by KKT).")
_e1("C16", "Every modulator object (169 incl. after setPhaseOffset) x 181 SNR points in [-30,60] dB as arrays and three scalar types plus 60..200 dB x packet lengths: range, monotonicity, limits, BER<=SER<=log2(M) BER, PER and spectral-efficiency identities, and SER equal to the value implied by dmin / levels of the EMITTED symbols (exact for BPSK/QAM; PSK bound bracketed by Craig's integral computed with a self-validated 96-point Gauss-Legendre rule).",
    "Trusted: libm erfc for Q, the Gauss-Legendre rule (validated on every run against closed forms). Probabilities compared with absolute floor 1e-15.")
_e1("C18", "All 1178 sizes 12, 24, 25..1200 for the prime selection against a sieve; CAZAC relations by direct O(N^2) sums for roots {1,2,Nzc-1,seed} and for every root of every prime length; every cyclic extension branch; full Gram matrices of all shifts for every admissible size; CAZAC estimators over variants x lengths x shifts x tap counts x receive forms x interferer sets; LS estimator over exhaustive small pilot matrices.",
    "Trusted: sieve, O(N^2) DFT. 'Kept taps' follows the implementation's reading (0..K). Quick-tier reductions are listed in the evidence assumptions.")
_e1("C20", "Every kernel (projections, chordal distances, gmd, whitening, update_inv_sum_diag, peig/leig, least_right_singular_vectors, unit conversions) x shapes up to 4 (thorough 6) x exhaustive small-entry, generic, nearly dependent and repeated-eigenvalue families: defining identities with condition-scaled tolerances.",
    "Trusted: numpy SVD/QR in oracles, c=1e3. Rank-deficient / ill-conditioned members are excluded and counted.")


def _mc(pid, technique, what, trusted):
    CHECKS[pid] = ("model_checking", technique, what, trusted, "DESIGN.md section 3, %s" % pid)

_mc("C10", "explicit-state BFS over setter/read histories of real IA solver objects (whole-object digest as canonical key) + exhaustive product over solver configurations",
    "E3: from six solved base states, every history up to depth 3 (thorough 4) over a 16-event alphabet (cache-populating reads, P=, set_precoders/set_receive_filters with arrays and lists, randomizeF, solve) is executed on the real solver; in every state all 8 views are compared with a reference model (F, P, W_H) and with a freshly built solver. E1: every solver x configuration x initialisation x power x iteration count of the stated tables: unit norm, power, identity, nulling (closed form), monotone leakage recomputed from public F and P.",
    "Trusted: reference model of derived quantities, eigenvalue-based leakage oracle. Infeasible IA configurations and MaxSinr/MMSE without noise are outside the enumerated set (stated).")
_mc("C13", "explicit-state BFS over parameter-setter histories of real path-loss objects with fresh-object differential",
    "Per model family, every history up to depth 4 (thorough 6) of valid and out-of-range setter calls is replayed on a real object; in every state a 61-point log grid of distances plus boundary seekers is checked for monotonicity, dB/linear consistency, inverse queries, small-distance policy, closed forms, and equality with a freshly constructed object; out-of-range setters must raise and leave the object digest unchanged. Antenna gain on 721 angles.",
    "Trusted: closed-form formulas re-derived in the check; tolerance 1e-9.")
_mc("C14", "explicit-state BFS over generate/skip histories of real Jakes generators against an exact integer sample-position model",
    "84 configurations (Fd x Ts x L x shape) x every generate(n)/skip(n) history up to depth 3 (thorough 5) with skips up to 1e10 samples: shape, Jakes sum-of-sinusoids value at the model position with the generator's own phases, differential against one-request generation from an identically seeded twin, Fd=0 constancy, magnitude bound.",
    "Trusted: Jakes formula with phases read back from the object; value checks whose stated timing tolerance exceeds sqrt(L) are excluded and counted.")

_e1("C02", "Every (fft, cp, used) triple on the integer grid incl. invalid neighbours (must raise ValueError) through constructor and set_parameters; every valid configuration (fft 2..8 all, 16, (64,16,52); thorough 2..24 and 32/64/128) x six input lengths: round trip with zero padding, output length, bit-exact cyclic prefix, no energy on DC/guard bins by an O(N^2) reference DFT; every 1-3 tap delay subset of {0..cp} x power tuples x 3 seeded static realisations through a real TdlChannel: one-tap equalisation with the REPORTED impulse response recovers the symbols.",
    "Trusted: O(N^2) DFT, direct-sum frequency response with aliasing. Realisations with a spectral null (min|H|<1e-3) are excluded and counted (none occurred).")
_e1("C17", "Every 1-2 (thorough 3) entry parameter dictionary over a 42-value alphabet (Python/numpy scalars of every width, strings, nested lists, sets, 1-3D arrays incl. empty) x every unpack subset x every unpacked child x targets (JSON string, pickle, files via save_to_file with templates); all four result types x update histories x accumulate; file-name determinism and injectivity over 35 scalars: library ==, independent field-by-field diff, save(load(x)) fixpoint.",
    "Trusted: field-by-field diff written in the check. dtype changes with exact values are recorded as outcomes, not violations.")
_mc("C06", "explicit-state enumeration of every update/merge program over small observation alphabets on real Result / SimulationResults objects against a sufficient-statistics reference",
    "Every term of E ::= new | E.update(o) | E.merge(E) over every observation sequence of length <= 4 (thorough 5) for all four result types and both accumulate settings (a superset of every contiguous partition x every association order), set-level merge_all_results/append_all_results programs incl. empty accumulators and left folds, union-level combine_simulation_results over 49 ordered subset pairs: value, total, update count, mean, variance against the reference and against one object fed the whole sequence; every merged-in operand is re-compared with its snapshot after every merge.",
    "Trusted: sufficient-statistics reference model. X.merge_all_results(empty) (KeyError) is treated as out of domain.")
_mc("C08", "explicit-state BFS over operation histories of real MultiUserChannelMatrix / ExtInt objects with scripted randomness and whole-object digest keys",
    "From each initialiser, every history up to depth 3 (thorough 4) over 20-27 events (randomize / init_from_channel_matrix with swapped unequal antenna layouts, set_pathloss incl. None and external-interference path loss, noise_var, set_post_filter, cache-populating reads of every view, both corrupt_data entry points) is replayed on a fresh real object; in every state every view (H, big_H, get_Hkl, get_Hk, big_H_no_ext_int, H_no_ext_int, get_Hk_without_ext_int) and both transmissions (output = W^H(big_H x + last_noise), last_noise = scripted draw x sqrt(noise_var), None iff noise_var None) are compared with a matrix reference model; wrong views are classified (stale path loss / stale layout expansion / stale channel).",
    "Trusted: the reference model (raw matrix x sqrt(block path loss)); K=2, square post filters, fixed number of external sources per history.")

_e1("C19", "Shapes (Hexagon, Rectangle 1:1 and 4:1, Circle, Cell, Cell3Sec, CellSquare, CellWrap of each) x positions x radii (incl. 1e-6, 1e6) x 11 rotations: containment on a lattice plus edge probes against a crossing-number test on the shape's OWN vertices, border points for 123 angles x 5 ratios, setter histories on one object (pos / radius / rotation, fresh-object differential), clusters of every size / type / rotation (congruence, centroid, neighbour distance, shared edges, no overlap, wrap-around lattice) in every order of construction (class-level state), distance matrices against a double loop, random user placement by deviation-bounded exploration (<=2..4 non-default draws) of the scripted numpy.random answers over an 8-letter alphabet, point processes per draw vector.",
    "Trusted: crossing-number test, independent vertex model. Points within 1e-9 r of an edge are excluded as ties and counted. Random placement through CellWrap is not explored (stated).")
CHECKS["C19"] = (CHECKS["C19"][0], "exhaustive product enumeration + deviation-bounded exploration of scripted random draws (E2) + setter histories on real shape/cell objects", ) + CHECKS["C19"][2:]

# ---- additions after the seeded-change waves (object-reuse histories, layouts, scales) ----
def _append(pid, extra_text, technique=None):
    lvl, tech, text, note, ref = CHECKS[pid]
    CHECKS[pid] = (lvl, technique or tech, text + " " + extra_text, note, ref)

_H = "explicit-state exploration of call/setter histories on one reused real object with a fresh-object differential"
_append("C01", "Index and sample arrays are additionally presented transposed, Fortran-ordered, strided, with negative strides, read-only, empty, as lists and in every integer width; one index/sample buffer is rewritten in place between calls (results must follow the new content, arguments stay bit-identical, returned arrays do not alias the table).")
_append("C02", "Part H: BFS (depth 3, thorough 4) over set_parameters / attribute assignments / cache-populating reads / transmissions on ONE OFDM object with its bound equaliser and a reused TdlChannel; after every event all round-trip, CP, guard-bin and equalisation relations for the CURRENT parameters and bit-exact equality with a fresh object; aliasing relations; six input dtypes/layouts.",
        "exhaustive product enumeration + " + _H)
_append("C03", "Every scenario also checks aliasing (arguments byte-identical, caller buffers rewritten in place between transmissions, returned arrays overwritten by the caller), amplitude / path-loss scales 1e-12..1e12, Ts 1e-9, 150 dB tap spans, twelve dtype/layout presentations, signal / fft sizes around powers of two up to 4097 (16385), and every sequence of <=2 interleaved events (switched_direction, set_num_antennas incl. None/None, direct generate_impulse_response, set_pathloss) between three transmissions.")
_append("C04", "History part: BFS (depth 4, thorough 5) over set_channel_matrix (other shape / other values), set_noise_var, calc_linear_SINRs, calc_SINRs, _calc_precoder, _calc_receive_filter, encode, decode on ONE object per scheme with the MMSE/ZF filter relation for the CURRENT state and a fresh-object differential; shapes up to 6x6 (8x8), global scale factors 1e-12..1e9, nearly tied singular values, Fortran / read-only / transposed inputs.",
        "exhaustive product enumeration + " + _H)
_append("C09", "Part H: every event sequence of length <=3 (thorough 4) on ONE EnhancedBD / WhiteningBD / BlockDiagonalizer object (metric changes, iPu, pe, noise_var, runs on two layouts, in-place refresh of the caller's channel buffer) with all relations for the current configuration and bit-for-bit equality with a fresh object; inputs-unchanged and second-call relations; channel scale factors 1e-12..1e6.",
        "exhaustive product enumeration + " + _H)
_append("C11", "Part H: BFS (depth 3) over set_pathloss (incl. -160 dB), noise_var (incl. 1e-13, 1e-20), init_from_channel_matrix, scripted randomize, solver setters and cache-warming observations on ONE channel object + ONE bound solver, every state compared with first principles; Part 1b: scale families (filters/precoders x1e-10..1e8, channels x1e-9/1e6, path loss 1e-12..1e-17, tiny noise / pe) with purely relative tolerances.",
        "exhaustive product enumeration + " + _H)
_append("C12", "Scale families: gains 1e-20..1e16 (36 decades), global rescaling of gains / noise / Pt / Es, a scale-covariance relation, link-budget vectors; arguments must not be modified.")
_append("C13", "A second BFS per family treats QUERIES as events (same distance array object reused, result overwritten by the caller, policy toggled between queries) and every numeric dtype / layout of distances and angles is compared with the float64 result.")
_append("C14", "A block part issues single requests of 1023..100000 samples and threshold skips followed by small requests, with differentials against one-request and 500-sample-chunk generation by identically seeded twins.")
_append("C16", "Call sequences on ONE modulator object with the same SNR buffer rewritten in place between calls (five orders of SER/BER/PER/SE), arguments unchanged, returned arrays stable, other SNR dtypes/layouts bit-identical to float64, setPhaseOffset interleavings compared with direct construction.")
_append("C17", "Value alphabet extended with non-contiguous / Fortran / strided / negative-stride / read-only / 0-d arrays and confusable floats (tiny, large-close, one ulp apart) for the file-name injectivity set.")
_append("C18", "Shared-root histories (users created in every order on one RootSequence, caller clobbering returned arrays) and estimator histories (one estimator reused with rewritten buffers), gains 1e-12..1e12, complex64 / Fortran / strided / read-only observations, extra lengths 25..128.")
_append("C20", "General (non-Hermitian) inputs and signed / complex diagonal updates for update_inv_sum_diag, shapes to 6x6, scale factors 1e-12..1e9, nearly tied singular values, and an aliasing battery for every kernel (arguments bit-identical, second call identical, Fortran / read-only / transposed inputs).")
_append("C05", "Stop predicates also return numpy booleans; grids include confusable floats (1e-9.. and 2.4e9+5e3); modes include a second simulate() on the same runner after the grid (item assignment / add) or rep_max was changed.")
_append("C07", "Plans: the per-variation workflow (simulate(0), simulate(1) as separate processes, then simulate()) and a second simulate() on the SAME runner after completion, each with the same crash / skip / clock-jump exploration.")
_append("C08", "K in {2,3}; channel magnitude 1e-9, link-budget path loss 1e-12..1e-15 and noise 1e-13 are part of the event alphabet.")
_append("C15", "Conversions and bit-error counting are also run on Fortran-ordered, transposed, strided, 3-D swapped-axes, read-only arrays and on every integer width int8..uint64, with arguments-unchanged and second-call relations.")

NOT_YET = {}


# ---- additions made through seeding waves 4-8 and the false-alarm controls (DESIGN 9, 10) ----
_COMMON = (" Oracle inputs come from the public surface (private names only through a tolerant helper); "
           "nondeterminism seams are installed process-wide; an exception raised by the check's own code ends "
           "as BROKEN (exit 2), never as a violation.")
_append("C01", "Numpy-typed scalar arguments, large M*N blocks in non-C order, sibling / reconfigured objects (QPSK, PSK after setPhaseOffset) and phase offsets beyond one period are part of the alphabet." + _COMMON)
_append("C02", "Odd fft sizes, memory == cp == fft, tied used-subcarrier counts across reconfigurations and frames of equal symbol count after a narrowed band are part of the histories." + _COMMON)
_append("C03", "Carrier index selections of every length and order (negative, wrapped, descending), on-grid duplicate delays, single-tap profiles at a non-zero delay, reverse links with one sending antenna, queries between frequency-domain transmissions; the fading reference is a copy of the generator driven through its public API." + _COMMON)
_append("C04", "Real / float32 / integer / complex64 channels and data, three consecutive decode rounds per state, filters observed through the public decode map, Nt = 1 and Nt >= 5, pairwise scale x structure families." + _COMMON)
_append("C05", "Resume sequences: 2-3 simulate() calls on one runner that keeps partial results with the limit raised, kept and LOWERED, mixing all-variations and single-index calls; single-precision grids; single-index run without unpacked parameters; both look-up entry points (values and confidence intervals); every look-up also made between the two simulate() calls of one runner (query-warmed caches x grid re-assignment by add() and by item assignment)." + _COMMON)
_append("C06", "Empty histories at every position of either operand, identical grids in descending / shuffled order, parameter objects edited after being read, observation through to_dict / getters only." + _COMMON)
_append("C07", "Restart variants: same parameters in another insertion order; float parameters differing by less than allclose tolerances; list / tuple parameters differing only in length; typed parameter values (tuple, numpy scalar, nested list) in both formats; the interrupted runner object itself restarted below and beyond the periodic save; single-index reuse after an in-place parameter change. The file a restart reads is asked from the library's public get_partial_results_filename; the crash layer and the clock are installed process-wide." + _COMMON)
_append("C08", "Several link-budget-scale path losses (differences below any absolute tolerance), same user part with another external part; received data judged against the REPORTED noise; a randomize() that bypasses the seam makes the model learn the raw channel from the object; vacuity measured on the model side." + _COMMON)
_append("C09", "Pairwise covering: histories x global scale 1e-12..1e12, zero external interference x every metric, re-layout (num_users reassigned) x same channel content." + _COMMON)
_append("C10", "Unequal stream counts with K >= 3 run step by step on ONE solver object (150/400 iterations) plus a one-step first-principles optimality oracle of the MinLeakage update; every public call form of set_precoders in the full-power and backed-off regime; tiny powers with several streams." + _COMMON)
_append("C11", "Sum capacity above 1100 bits and where 1+SINR rounds to 1; layout histories (same totals, other per-user split); noise_var / pe / powers as numpy scalars and ints; pe boundary family x every accessor with required (class, entry point, pe, noise) cells." + _COMMON)
_append("C12", "Tolerances relative to the total power, exact rational optimum (fractions) for n <= 3, ratio family noise/(Es gain Pt) over 1e-48..1e48, every argument presentation (integer / float32 gains, numpy scalars), repeated calls with only Es changed." + _COMMON)
_append("C13", "Every presentation of one distance x policy x entry point; 16 broadcast shape pairs for wall counts; 12 memory layouts x clamp policy; query events of every entry point inside setter histories; clone events (copy / deepcopy / pickle)." + _COMMON)
_append("C14", "Single requests whose temporary crosses 2^20..2^23 elements with a follow-up request; every returned array kept uncopied to the end of the history; typed sizes x positions beyond 2^31 / 2^32; Fd == 0 lifecycle histories; clone events; formula-free relations keep full strength when the phases are unreadable." + _COMMON)
_append("C15", "Bit-error counting over the whole uint64 range and on arrays of 4095..2^18+5 (2^20+3) elements; sibling objects of one configuration after one owner re-labelled its table in place.")
_append("C16", "Packet length, scalar SNR and M at construction in 13 scalar forms; PSK(2) at very low SNR and with phase offsets; the QPSK subclass against its emitted constellation; same SNR buffer rewritten in place x packet-length path." + _COMMON)
_append("C17", "Edit-after-read histories of parameter objects; TYPE axis of file-name injectivity (Python / numpy scalars, children of unpacked arrays); order-independent names (lone names computed in forked children, every ordered pair of value-equal objects of different dtype); Fortran-ordered non-square arrays; ragged lists." + _COMMON)
_append("C18", "Prime selection judged through the public Nzc for every size 25..1200; numpy-typed flags / integers / cover-code containers; shift 0 x normalize on shared roots; 1-tap channels with interferers; batched least-squares with real pilots." + _COMMON)
_append("C19", "Every uniform entry point of numpy.random is scripted (and the rest seeded); the oracle judges accepted users and termination only; negative rotations, 13-cell centroid, quarter-turn non-square rectangles, mixed cell families of equal count in one process, query-warmed caches x setters." + _COMMON)
_append("C20", "Degenerate (1xn, mx1) and wide shapes real and complex for every kernel; update kernel 10 structures x 4 diagonal kinds; chordal pairs of different dimension; tiny-magnitude matrices on the orthogonal-projection path." + _COMMON)


def main():
    props = [json.loads(l) for l in open(os.path.join(root, "properties.jsonl"))]
    checks = []
    na = []
    for p in props:
        pid = p["id"]
        have = glob.glob(os.path.join(root, "checks", pid.lower() + "_*.py"))
        if pid in CHECKS and have:
            level, technique, text, note, ref = CHECKS[pid]
            checks.append({
                "property_id": pid,
                "quick_cmd": "./check %s --tier quick" % pid,
                "thorough_cmd": "./check %s --tier thorough" % pid,
                "evidence_file": "/verif/evidence/%s.json" % pid,
                "replay_cmd_template": "./check %s --replay {path}" % pid,
                "engine": "vmc",
                "level_claimed": {"category": level, "text": text, "design_ref": ref},
                "level_note": note,
                "technique": technique,
            })
        else:
            na.append({"property_id": pid,
                       "reason": NOT_YET.get(pid, "check not built yet in this revision (planned, see DESIGN.md section 3); not claimed")})
    m = {
        "version": 1,
        "setup_cmd": "/venv/bin/python -B tools/setup_check.py",
        "hooks": {
            "guard": "PYPHYSIM_VERIF",
            "enable": "no source hooks exist: every seam (RNG, clock, file layer, callbacks) is reached by assigning module attributes from the harness; the guard name is reserved and unused",
            "baseline_off_cmd": "python3 /verif/tools/baseline.py /repo",
            "source_commits": [],
            "add_only": True,
        },
        "engines": [
            {"name": "vmc", "path": "/verif/vmc",
             "serves_properties": [c["property_id"] for c in checks],
             "kind_free_text": "hand-written explicit-state / stateless bounded explorers executing the real Python implementation: E1 exhaustive product enumerator, E2 deviation-bounded choice explorer over environment answers, E3 BFS over operation histories with whole-object digests, E4 crash-point/torn-write file layer"},
        ],
        "checks": checks,
        "not_applicable": na,
        "notes": "All checks import pyphysim from /repo's working tree (VERIF_REPO overrides), never from site-packages. Known genuine defects: /verif/known_findings.json. Seeded property-breaking changes: /verif/seeded/.",
    }
    if not na:
        m.pop("not_applicable")
    out = os.path.join(root, "MANIFEST.json")
    with open(out + ".tmp", "w") as f:
        json.dump(m, f, indent=1)
    try:
        import jsonschema
        jsonschema.validate(m, json.load(open(os.path.join(here, "MANIFEST.schema.json"))))
    except ImportError:
        pass
    os.replace(out + ".tmp", out)
    print("MANIFEST.json: %d checks, %d not_applicable" % (len(checks), len(na)))


if __name__ == "__main__":
    main()
