"""Seams: module-attribute patching, virtual clock, scripted random sources."""
import contextlib

import numpy as np

_MISSING = object()


@contextlib.contextmanager
def patched(*triples):
    """patched((module_or_obj, "attr", value), ...): set attributes, restore on exit.
    Works for names a module resolves from builtins too (e.g. `open`)."""
    saved = []
    try:
        for obj, name, val in triples:
            saved.append((obj, name, obj.__dict__.get(name, _MISSING)
                          if hasattr(obj, "__dict__") else getattr(obj, name, _MISSING)))
            setattr(obj, name, val)
        yield
    finally:
        for obj, name, old in reversed(saved):
            if old is _MISSING:
                try:
                    delattr(obj, name)
                except AttributeError:
                    pass
            else:
                setattr(obj, name, old)


class VirtualClock:
    """callable replacement for time.time; `advance` is called by the harness."""

    def __init__(self, t0=1.0e9, tick=0.001):
        self.t = t0
        self.tick = tick
        self.calls = 0

    def __call__(self):
        self.calls += 1
        self.t += self.tick
        return self.t

    def advance(self, dt):
        self.t += dt

    # usable where the library holds the MODULE (`import time; time.time()`) as well as where it
    # holds the function (`from time import time`)
    def time(self):
        return self()

    monotonic = perf_counter = time

    def installed(self, *modules):
        """patch `time` in the given library modules AND time.time / monotonic / perf_counter of the
        time module itself, so the clock is owned however the library spells the call"""
        import time as _t
        triples = [(m, "time", self) for m in modules if hasattr(m, "time")]
        triples += [(_t, "time", self), (_t, "monotonic", self), (_t, "perf_counter", self)]
        return patched(*triples)


class ScriptedUniform:
    """replacement for numpy.random.random_sample / rand: answers come from
    `answer(label)` (an E2 choice point or a fixed cycle)."""

    def __init__(self, answer):
        self.answer = answer
        self.draws = 0

    def random_sample(self, size=None):
        if size is None:
            self.draws += 1
            return float(self.answer(self.draws))
        n = int(np.prod(size))
        out = np.empty(n)
        for i in range(n):
            self.draws += 1
            out[i] = self.answer(self.draws)
        return out.reshape(size)

    def rand(self, *shape):
        return self.random_sample(shape if shape else None)
