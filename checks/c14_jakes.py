"""C14 - Jakes fading samples do not depend on how generation was chunked.

E3: explicit-state BFS over histories of generate(n) / skip(n) requests on real
`JakesSampleGenerator` objects, one BFS per configuration (Fd, Ts, L, shape).

Reference model: an exact *integer* sample position k (the constructor consumes
sample 0, so k = 1 in the initial state; generate(n) and skip(n) add n).

Oracle in every state reached by generate(n) from position k0:
  * the call completes and get_samples().shape == shape + (n,);
  * sample i equals L^-1/2 sum_l exp(j(2 pi Fd cos(phi_l) t + psi_l)) at
    t = (k0+i) Ts with the phases the generator drew at construction, within
    the stated timing tolerance |dt| <= 1e-9 (k0+n) Ts + 1e-6 Ts, i.e. a value
    tolerance of 2 pi Fd sqrt(L) dt + 1e-9 (DESIGN C14);
  * differential: the same stretch from an identically seeded generator
    obtained in ONE request (positions <= DIFF_ONE_REQUEST_MAX) and through one
    single skip (all positions);
  * Fd = 0 => every sample equals the constructor's sample; |h| <= sqrt(L).
In every state reached by skip(n): get_samples() is unchanged.
Kept pieces: every array handed out by get_samples() (the constructor's sample and one per
generate) is kept WITHOUT copying; after the last event of every history each of them must be
byte-identical to what it was when returned, still equal the Jakes formula for its positions
(pieces <= 128 samples), and no two may share memory (a caller that collects the pieces and
concatenates them afterwards); also for the second live object, the large requests (a second
request of the same size), generate_jakes_samples chains, Rayleigh, and after the caller wrote
into a returned array (lifecycle event "scribble").
A state in which a request raised is a terminal (failed) state.

Bounds.  Events: generate n in {1,2,3,7,100}, skip n in {1,5,1e6,1e7+3,1e9,1e10}.
Configurations: Fd {0,.4,5,100} x Ts {1,1e-3,3.25e-8,1e-9} with Fd*Ts <= 0.5 (14) x
L {1,8} x shape {None,3,(2,3)} = 84.  quick: every history of depth <= 3 for all 84.
thorough: depth <= 5 for shape None (28), depth <= 4 for the array shapes (56), and
depth <= 3 with the additional event generate(1e5) for shape None (28).
Block part (both tiers, depth <= 3): shapes {None, 3} x L {1,8} x 3 (Fd,Ts) pairs (thorough:
all 12 with Fd > 0); events generate {1,7,500}, skip {1,1023,1024,1025,4096,4097,65537 (shape None)},
one large generate {1023,1024,1025,4096,4097,5000} as first or middle event, or
{65537,100000} as first event (shape None), followed by every small request; extra
differentials: ONE request and 500-sample chunks from an identically seeded twin.

Lifecycle part (both tiers): the generator is obtained through get_similar_fading_generator()
of a parent at positions 1, 8, 1e6+1, 3501, or through the shape setter after generate(7) /
skip(1e6), or the constructor; a second live generator (the parent, else an independent one)
is used alternately (b_generate / b_skip; a valid request on one object must leave the digest of
the other unchanged); invalid calls generate(2.5 / "3" / 0 / -1), skip(None / -5), shape = "x" /
(-1,) / (2.5,) are free as calls (tools/INVALID_CALL_POLICY.md): raise / accept / object change are
recorded as outcomes; afterwards position, shape and phases are re-read from the generator's
reported state, which must be an integer position and a shape agreeing with the phases, and every
later VALID request is judged by the usual oracle from there (after_invalid_call|...).
Depth 3 (thorough 4), 2 configurations x 7 roots.
Large single requests: L {5,8,10,12,20} x shape {None,(2,),(3,2),(4,4)}, ONE request whose
temporary L*prod(shape)*n sits just below / just above 2^20 and at 1.5, 3, 5 x 2^20 elements (quick:
two sizes per (L, shape), rotating, a strided sample subset incl. first/last/power-of-two
boundaries, all rays; thorough: 14 sizes up to 8 x 2^20, every sample) against the Jakes sum
computed here ray by ray in chunks, and against the same stretch in smaller requests on an
identically seeded second generator; sizes whose temporary crosses 2^22 / 2^23 elements with n not a multiple
of plausible block lengths (quick: 7 of them); after the large request(s) a 3-sample follow-up request is
compared with the formula at the following positions and with the twin that got there by small requests.
Function part: generate_jakes_samples with explicit current_time (6 start positions x chains of
two calls, n in {1,7,100,4097}) - shape, returned time, values.  RayleighSampleGenerator: shape /
count clause only (generate, skip, shape setter, get_similar_fading_generator).

Known on the unchanged tree (genuine defect, signature
generate_more_samples|ValueError_time_vector_has_n+1_entries|position>=1e6):
np.arange(t0, t0+n*Ts, Ts*1.0000000001) has n+1 entries once t0/Ts >~ 2e6.
"""
import math
import os
import traceback
from contextlib import contextmanager

import numpy as np

from vmc import bfs, common
from vmc.parallel import run_shards
from vmc.report import Broken, Check

PID = "C14"
LEVEL = "model_checking"
ENGINE = "E3 BFS over generate/skip histories of real JakesSampleGenerator objects"
RULE = ("per configuration (Fd, Ts, L, shape; Fd*Ts <= 0.5; seeded RandomState) every history of "
        "generate(n)/skip(n) events up to the depth bound is executed on a fresh real object "
        "(build(hist) replays from the constructor); reference model = exact integer sample "
        "position; oracle = Jakes sum of sinusoids at t=(k+i)Ts with the phases read back after "
        "construction + shape + one-request / one-skip differential + Fd=0 constancy + |h|<=sqrt(L); "
        "block part: one large request (1023..100000, around plausible block sizes) as first or middle "
        "event followed by small requests, + twin differential in ONE request and in 500-sample chunks; "
        "lifecycle part: generators obtained by get_similar_fading_generator() of a running parent / the "
        "shape setter / the constructor, a second live generator used alternately, invalid requests that "
        "must leave the object unchanged when they raise; generate_jakes_samples with explicit "
        "current_time; RayleighSampleGenerator shape/count. "
        "A case is non-trivial when it is a generate at position > 1 with Fd > 0 whose value "
        "tolerance is below 1e-3*sqrt(L); distinct = distinct (configuration, start position, n)")

GEN_N = (1, 2, 3, 7, 100)
GEN_BIG = 10 ** 5
SKIP_N = (1, 5, 10 ** 6, 10 ** 7 + 3, 10 ** 9, 10 ** 10)
FD = (0.0, 0.4, 5.0, 100.0)
TS = (1.0, 1e-3, 3.25e-8, 1e-9)
LS = (1, 8)
SHAPES = (None, 3, (2, 3))

REL_T = 1e-9          # timing tolerance relative to the position
ABS_T = 1e-6          # timing tolerance in samples
ABS_V = 1e-9          # absolute value tolerance
DIFF_ONE_REQUEST_MAX = 2048
DIFF_ONE_REQUEST_MAX_BLOCK = 2 ** 18     # block part: positions stay below 1e5 + 65537 + a few thousand
CHUNK = 500

# "block" part (all tiers): request sizes just below / at / above plausible internal block
# sizes and large requests, as the first or middle event of depth-3 histories, so that what
# a large request leaves behind is observed by the requests that follow it.
BLOCK_SMALL = (("generate", 1), ("generate", 7), ("generate", 500), ("skip", 1))
BLOCK_GEN_MEDIUM = (1023, 1024, 1025, 4096, 4097, 5000)
BLOCK_GEN_HUGE = (65537, 100000)           # first event only, scalar generator only (cost)
BLOCK_SKIP = (1023, 1024, 1025, 4096, 4097, 65537)
BLOCK_FDTS = ((100.0, 1e-3), (5.0, 3.25e-8), (0.4, 1.0))
BLOCK_SHAPES = (None, 3)


MISSING = object()
# the generator has no public accessor for its ray angles / phases: candidate private spellings
PHI_NAMES = ("_phi_l", "phi_l", "_phi", "phi", "_phis", "_phi_rays", "_ray_phi")
PSI_NAMES = ("_psi_l", "psi_l", "_psi", "psi", "_psis", "_psi_rays", "_ray_psi")
TIME_NAMES = ("_current_time", "current_time")                       # seconds
INDEX_NAMES = ("_current_sample", "_sample_index", "_sample_counter", "_next_sample", "_position")   # samples


def _private(obj, *candidate_names, default=MISSING):
    """the first existing attribute among the candidate (private) names, else `default` - never an
    AttributeError: a relation whose oracle input is unavailable is skipped and counted"""
    for name in candidate_names:
        try:
            v = getattr(obj, name, MISSING)
        except Exception:  # noqa
            v = MISSING
        if v is not MISSING:
            return v
    return default


@contextmanager
def own_errors_are_broken():
    """an exception whose innermost relevant frame is the check's own code (checks/ or vmc/) says nothing
    about the property: the check is broken (exit 2), never a violation; exceptions raised inside pyphysim
    (for VALID calls) are left to chk.guard"""
    try:
        yield
    except (Broken, KeyboardInterrupt, SystemExit):
        raise
    except BaseException as e:  # noqa
        own = (os.path.join(common.VERIF_DIR, "checks") + os.sep, os.path.join(common.VERIF_DIR, "vmc") + os.sep)
        for fr in reversed(traceback.extract_tb(e.__traceback__)):
            f = os.path.abspath(fr.filename)
            if "/pyphysim/" in f:
                raise
            if f.startswith(own):
                raise Broken("exception in the check's own code (%s:%d in %s): %s: %s"
                             % (os.path.basename(f), fr.lineno, fr.name, type(e).__name__, e))
        raise


@contextmanager
def guarded(chk, sig, case):
    with chk.guard(sig, case):
        with own_errors_are_broken():
            yield


def phases_of(g, shape):
    """(phi, psi) as float arrays of shape (L,) + shape + (1,), or (None, None) when the generator does not
    expose them under a known name / layout (then the formula relation is skipped and counted)"""
    phi, psi = _private(g, *PHI_NAMES), _private(g, *PSI_NAMES)
    if phi is MISSING or psi is MISSING or phi is None or psi is None:
        return None, None
    try:
        phi, psi = np.array(phi, dtype=float, copy=True), np.array(psi, dtype=float, copy=True)
        L = int(g.L)
    except Exception:  # noqa
        return None, None
    shp = shape_tuple(shape)
    if phi.shape != psi.shape:
        return None, None
    if phi.shape == (L,) + shp:
        return phi[..., None], psi[..., None]
    if phi.shape == (L,) + shp + (1,):
        return phi, psi
    return None, None


def position_of(g):
    """the position the generator reports (in samples), or None when it is not readable"""
    t = _private(g, *TIME_NAMES)
    try:
        if t is not MISSING and t is not None:
            return float(t) / float(g.Ts)
        k = _private(g, *INDEX_NAMES)
        if k is not MISSING and k is not None:
            return float(k)
    except Exception:  # noqa
        pass
    return None


def shape_tuple(shape):
    if shape is None:
        return ()
    if isinstance(shape, int):
        return (shape,)
    return tuple(shape)


def configs(seed, big=False):
    """deterministic list of configurations, simplest first"""
    out = []
    for shape in ((None,) if big else SHAPES):
        for L in LS:
            for Ts in TS:
                for Fd in FD:
                    if Fd * Ts > 0.5:
                        continue
                    out.append(dict(Fd=Fd, Ts=Ts, L=L, shape=shape, big=big))
    for i, c in enumerate(out):
        c["index"] = i
        c["rs_seed"] = 20250 + 1000 * seed + i
    return out


def block_configs(seed, thorough):
    out = []
    pairs = [(Fd, Ts) for Ts in TS for Fd in FD if Fd * Ts <= 0.5 and Fd > 0] if thorough else BLOCK_FDTS
    for shape in BLOCK_SHAPES:
        for L in LS:
            if not thorough and shape is not None and L == 1:
                continue                     # quick budget: the array shape only with L = 8
            for Fd, Ts in pairs:
                out.append(dict(Fd=Fd, Ts=Ts, L=L, shape=shape, big=False, block=True))
    for i, c in enumerate(out):
        c["index"] = 1000 + i
        c["rs_seed"] = 77000 + 1000 * seed + i
    return out


def block_enabled(cfg, hist):
    """at most one large generate per history, as first or middle event; after a huge one only
    the small follow-up requests (they are what observes the damage)"""
    big = [e for e in hist if e[0] == "generate" and e[1] >= BLOCK_GEN_MEDIUM[0]]
    if big and big[0][1] >= BLOCK_GEN_HUGE[0]:
        return list(BLOCK_SMALL)
    ev = list(BLOCK_SMALL)
    if not big and len(hist) <= 1:
        ev += [("generate", n) for n in BLOCK_GEN_MEDIUM]
    # the 65537 skip makes every twin-from-the-start differential expensive: scalar generator only
    ev += [("skip", n) for n in BLOCK_SKIP if n < BLOCK_GEN_HUGE[0] or cfg["shape"] is None]
    if not big and len(hist) == 0 and cfg["shape"] is None:
        ev += [("generate", n) for n in BLOCK_GEN_HUGE]
    return ev


# integer TYPES of the request sizes x positions just below / across / beyond 2**31 and 2**32 (one big skip
# gets there cheaply); a third element of an event names the type the size is presented in
SIZE_TYPES = {"py": int, "int32": np.int32, "int64": np.int64, "uint32": np.uint32}
INT_SKIPS = (2 ** 31 - 10, 2 ** 31 + 5, 2 ** 32 - 4, 2 ** 32 + 3)
INT_GENS = ((20, "py"), (20, "int32"), (20, "int64"), (20, "uint32"), (7, "int32"))
INT_FDTS_L = ((5.0, 3.25e-8, 1, None), (100.0, 1e-9, 8, 3))


def int_events():
    ev = [("generate", n, t) for n, t in INT_GENS]
    for n in INT_SKIPS:
        for t, T in SIZE_TYPES.items():
            if t == "py" or n <= np.iinfo(T).max:
                ev.append(("skip", n, t))
    return ev


def int_configs(seed):
    out = []
    for i, (Fd, Ts, L, shape) in enumerate(INT_FDTS_L):
        out.append(dict(Fd=Fd, Ts=Ts, L=L, shape=shape, big=False, inttypes=True, index=5000 + i,
                        rs_seed=61000 + 1000 * seed + i))
    return out


def events(cfg):
    if cfg.get("inttypes"):
        return int_events()
    ev = [("generate", n) for n in GEN_N]
    if cfg.get("big"):
        ev.append(("generate", GEN_BIG))
    ev += [("skip", n) for n in SKIP_N]
    return ev


# ----------------------------------------------------------------------
# the state: real object + reference model + what was seen on the way
# ----------------------------------------------------------------------
class JState:
    def __init__(self):
        self.g = None
        self.k = 0              # reference model: exact integer position of the next sample
        self.err = None         # (stage, exception) of the first failing call
        self.phi = self.psi = self.s0 = None
        self.prev_samples = None
        self.k_before = 0
        self.pos_unknown = False  # an invalid call changed the object and its position cannot be re-read
        self.kept = []          # every array handed out by get_samples(), NOT copied: dict(arr, snap, k0, n, what)


def keep(st, what, k0, n):
    """remember the very array object the generator hands out (as a caller that collects the pieces would)"""
    a = st.g.get_samples()
    if isinstance(a, np.ndarray):
        st.kept.append(dict(arr=a, snap=a.tobytes(), k0=k0, n=n, what=what))


def _tup(shape):
    return tuple(shape) if isinstance(shape, list) else shape


def derive(cfg):
    """obtain the generator the way cfg["root"] says: constructor (default), get_similar_fading_generator()
    of a parent that already ran, or the shape setter mid-history.  Returns dict(g, parent, parent_*)"""
    from pyphysim.channels.fading_generators import JakesSampleGenerator
    root = cfg.get("root") or ("ctor",)
    rs = np.random.RandomState(cfg["rs_seed"])
    if root[0] == "ctor":
        return dict(g=JakesSampleGenerator(cfg["Fd"], cfg["Ts"], cfg["L"], _tup(cfg["shape"]), rs), parent=None)
    if root[0] == "similar":
        p = JakesSampleGenerator(cfg["Fd"], cfg["Ts"], cfg["L"], _tup(cfg["shape"]), rs)
        pphi, ppsi = phases_of(p, cfg["shape"])
        out = dict(parent=p, parent_phi=pphi, parent_psi=ppsi,
                   parent_s0=np.array(p.get_samples(), copy=True))
        for kind, n in root[1]:
            (p.generate_more_samples if kind == "generate" else p.skip_samples_for_next_generation)(n)
        # the unchanged tree draws the child's phases from the global numpy RNG: own it
        np.random.seed(cfg["rs_seed"] % (2 ** 31) + 11)
        out["g"] = p.get_similar_fading_generator()
        return out
    if root[0] == "shape":
        g = JakesSampleGenerator(cfg["Fd"], cfg["Ts"], cfg["L"], _tup(root[1]), rs)
        for kind, n in root[2]:
            (g.generate_more_samples if kind == "generate" else g.skip_samples_for_next_generation)(n)
        g.shape = _tup(cfg["shape"])
        return dict(g=g, parent=None)
    raise KeyError(root)


def new_generator(cfg):
    return derive(cfg)["g"]


def build(cfg, hist):
    st = JState()
    try:
        g = new_generator(cfg)
        st.g = g
        st.phi, st.psi = phases_of(g, cfg["shape"])
        st.s0 = np.array(g.get_samples(), copy=True)
        keep(st, "constructor_sample", 0, 1)
    except Exception as e:  # noqa - reported by the invariant
        st.err = ("construct", e)
        return st
    st.k = 1
    for ev in hist:
        kind, n = ev[0], int(ev[1])
        arg = SIZE_TYPES[ev[2]](n) if len(ev) > 2 else n      # the size as the caller presents it
        st.k_before = st.k
        try:
            st.prev_samples = np.array(g.get_samples(), copy=True)
            if kind == "generate":
                g.generate_more_samples(arg)
            else:
                g.skip_samples_for_next_generation(arg)
        except Exception as e:  # noqa
            st.err = (kind, e)
            return st
        if kind == "generate":
            keep(st, "generate(%d)" % n, st.k, n)
        st.k += n
    return st


# ----------------------------------------------------------------------
# oracle
# ----------------------------------------------------------------------
def no_formula(chk, st_or_phi):
    """True (and counted) when the generator's phases could not be read: the formula relation is skipped,
    every formula-free relation goes on"""
    phi = st_or_phi.phi if hasattr(st_or_phi, "phi") else st_or_phi
    if phi is None:
        chk.outcome("oracle_input_unavailable", "phases")
        chk.count("excluded_formula_relation_phases_unreadable")
        return True
    chk.count("eval_formula_comparisons")
    return False


def jakes_reference(cfg, phi, psi, k0, n):
    """h[..., i] at t = (k0+i) Ts, boring loop over the rays"""
    L = cfg["L"]
    t = (np.arange(n, dtype=np.int64) + np.int64(k0)).astype(float) * cfg["Ts"]
    acc = np.zeros(shape_tuple(cfg["shape"]) + (n,), dtype=complex)
    for l in range(L):
        acc += np.exp(1j * (2.0 * math.pi * cfg["Fd"] * np.cos(phi[l]) * t + psi[l]))
    return acc / math.sqrt(L)


def value_tol(cfg, k_end):
    dt = (REL_T * abs(k_end) + ABS_T) * cfg["Ts"]
    return 2.0 * math.pi * cfg["Fd"] * math.sqrt(cfg["L"]) * dt + ABS_V


def pos_bucket(k):
    if k < 10 ** 6:
        return "position<1e6"
    return "position>=1e6"


def decade(k):
    return len(str(int(k))) - 1


def classify_generate_error(e, n):
    """name the failure: the time vector got n+1 entries (so the reshape to n fails) or something else"""
    msg = str(e)
    if isinstance(e, ValueError) and "reshape" in msg and ("size %d " % (n + 1)) in msg:
        return "ValueError_time_vector_has_n+1_entries"
    return "%s_other" % type(e).__name__


def case_of(cfg, hist):
    return {"Fd": cfg["Fd"], "Ts": cfg["Ts"], "L": cfg["L"], "shape": cfg["shape"],
            "rs_seed": cfg["rs_seed"], "big": bool(cfg.get("big")), "block": bool(cfg.get("block")),
            "history": [list(h) for h in hist]}


KEPT_FORMULA_MAX = 128      # kept arrays up to this many samples are also re-compared with the formula


def check_kept(chk, cfg, st, case):
    """a caller that keeps the returned pieces and assembles the stretch afterwards: after the last event
    every array returned earlier still holds what it held when it was returned (exactly), still equals the
    Jakes formula for its own positions, and no two of them share memory"""
    kept = getattr(st, "kept", None)
    if not kept or len(kept) < 2:
        return
    chk.count("eval_kept_array_rechecks")
    chk.count("kept_arrays_rechecked", len(kept))
    for i, kp in enumerate(kept):
        a = kp["arr"]
        if a.tobytes() != kp["snap"]:
            later = [q["what"] for q in kept[i + 1:]]
            chk.fail(("returned_array", "overwritten_by_a_later_request",
                      "constructor_sample" if kp["what"] == "constructor_sample" else "generate"), case,
                     observed="the array returned by %s (positions %r..) changed after %s"
                     % (kp["what"], kp["k0"], ", ".join(later) or "a later event"),
                     expected="returned samples stay what they were")
            continue
        for q in kept[i + 1:]:
            if np.shares_memory(a, q["arr"]):
                chk.fail(("returned_array", "shares_memory_with_a_later_result"), case,
                         observed="%s and %s" % (kp["what"], q["what"]), expected="independent arrays")
                break
        if kp["k0"] is not None and kp["n"] <= KEPT_FORMULA_MAX and i < len(kept) - 1 \
                and a.shape == shape_tuple(cfg["shape"]) + (kp["n"],) and st.phi is not None:
            ref = jakes_reference(cfg, st.phi, st.psi, kp["k0"], kp["n"])
            if not np.all(np.abs(a - ref) <= value_tol(cfg, kp["k0"] + kp["n"])):
                chk.fail(("returned_array", "value_vs_jakes_formula_at_end_of_history"), case,
                         observed=a.ravel()[:3], expected=ref.ravel()[:3])


def check_state(chk, cfg, hist, st, case=None):
    _check_state(chk, cfg, hist, st, case)
    if st.err is None:
        check_kept(chk, cfg, st, case_of(cfg, hist) if case is None else case)


def _check_state(chk, cfg, hist, st, case=None):
    case = case_of(cfg, hist) if case is None else case
    ks = cfg.get("k_start", 1)        # position right after the generator was obtained
    L, Fd = cfg["L"], cfg["Fd"]
    shp = shape_tuple(cfg["shape"])
    if st.err is not None:
        stage, e = st.err
        if stage == "generate":
            n = int(hist[-1][1])
            chk.count("eval_generate")
            chk.outcome("generate_result", ("raised", decade(st.k_before), n))
            chk.fail(("generate_more_samples", classify_generate_error(e, n), pos_bucket(st.k_before)),
                     case, observed="%s: %s (start position %d, n=%d)" % (type(e).__name__, e, st.k_before, n),
                     expected="exactly %d samples of shape %r" % (n, shp + (n,)))
        else:
            chk.fail((stage, "raises", type(e).__name__), case,
                     observed="%s: %s" % (type(e).__name__, e), expected="no exception")
        return
    g = st.g
    if not hist:
        chk.count("eval_construct")
        how = {"similar": "get_similar_fading_generator", "shape": "shape_setter"}.get(
            (cfg.get("root") or ("ctor",))[0], "constructor")
        s = np.asarray(g.get_samples())
        if how != "shape_setter":
            # a constructed / derived generator holds sample 0 of ITS process
            if s.shape != shp + (1,):
                chk.fail((how, "wrong_shape"), case, observed=s.shape, expected=shp + (1,))
                return
            if not no_formula(chk, st):
                ref = jakes_reference(cfg, st.phi, st.psi, 0, 1)
                if not np.all(np.abs(s - ref) <= ABS_V):
                    chk.fail((how, "sample0_value"), case, observed=s.ravel()[:3], expected=ref.ravel()[:3])
        for name, want in (("Fd", Fd), ("Ts", cfg["Ts"]), ("L", L)):
            if getattr(g, name) != want:
                chk.fail(("constructor", "property_" + name), case, observed=getattr(g, name), expected=want)
        if (g.shape is None) != (cfg["shape"] is None) or shape_tuple(_tuplify(g.shape)) != shp:
            chk.fail(("constructor", "property_shape"), case, observed=g.shape, expected=shp)
        return
    kind, n = hist[-1][0], int(hist[-1][1])
    k0 = st.k_before
    s = g.get_samples()
    if kind == "skip":
        chk.count("eval_skip")
        same = (np.shape(s) == np.shape(st.prev_samples)
                and bool(np.all(np.asarray(s) == st.prev_samples)))
        if not same:
            chk.fail(("skip", "changes_get_samples"), case, observed=np.asarray(s).ravel()[:3],
                     expected=st.prev_samples.ravel()[:3])
        return
    # ---- generate(n) from position k0 ----
    chk.count("eval_generate")
    chk.count("samples_compared", n * int(np.prod(shp, dtype=int)))
    s = np.asarray(s)
    if s.shape != shp + (n,):
        chk.fail(("generate_more_samples", "wrong_shape", pos_bucket(k0)), case,
                 observed=s.shape, expected=shp + (n,))
        return
    chk.outcome("generate_result", ("ok", decade(k0), n))
    if cfg.get("inttypes"):
        chk.outcome("size_type_x_position", (tuple(sorted(set(e[2] for e in hist if e[0] == "skip"))), hist[-1][2],
                                             "beyond_2^32" if k0 >= 2 ** 32 else
                                             ("beyond_2^31" if k0 >= 2 ** 31 else "below_2^31")))
    chk.outcome("position_decade", decade(k0))
    tol = value_tol(cfg, k0 + n)
    amp = math.sqrt(L)
    d = np.zeros(1) if no_formula(chk, st) else np.abs(s - jakes_reference(cfg, st.phi, st.psi, k0, n))
    if not np.all(d <= tol):
        i = int(np.argmax(d.reshape(-1, n).max(axis=0)))
        chk.fail(("generate_more_samples", "value_vs_jakes_formula", pos_bucket(k0)), case,
                 observed="max |h-ref| = %.3e at sample %d of the request (position %d), tolerance %.3e"
                 % (float(d.max()), i, k0 + i, tol),
                 expected="L^-1/2 sum_l exp(j(2 pi Fd cos(phi_l) (k+i)Ts + psi_l))")
    if tol >= amp:
        chk.count("excluded_value_tolerance_ge_amplitude")
    elif Fd > 0 and k0 > 1 and tol < 1e-3 * amp:
        chk.nontriv((cfg["index"], bool(cfg.get("big")), k0, n))
    if not np.all(np.abs(s) <= amp * (1 + 1e-12)):
        chk.fail(("generate_more_samples", "magnitude_exceeds_sqrt_L"), case,
                 observed=float(np.abs(s).max()), expected="<= %r" % amp)
    if Fd == 0:
        # time-invariant: constant within the request, and equal to the sample the generator was obtained with
        # (unless its phases were redrawn since: shape setter / object-changing invalid call)
        same_process = (cfg.get("root") or ("ctor",))[0] != "shape" and not cfg.get("no_twins") \
            and np.shape(st.s0) == shp + (1,)
        if not np.all(np.abs(s - s[..., :1]) <= 1e-12) or \
                (same_process and not np.all(np.abs(s - st.s0) <= 1e-12)):
            chk.fail(("generate_more_samples", "Fd=0_not_constant"), case,
                     observed=s.ravel()[:3], expected=(st.s0 if same_process else s[..., :1]).ravel()[:3])
    # ---- differential: identically seeded generator, stretch obtained directly ----
    one_max = DIFF_ONE_REQUEST_MAX_BLOCK if cfg.get("block") else DIFF_ONE_REQUEST_MAX
    if cfg.get("no_twins"):
        chk.count("excluded_twin_differentials_after_object_changing_invalid_call")
        return
    if k0 + n <= one_max:
        f = new_generator(cfg)
        f.generate_more_samples(k0 + n - ks)          # positions ks .. k0+n-1 in ONE request
        one = np.asarray(f.get_samples())[..., k0 - ks:]
        chk.count("eval_differential_one_request")
        if one.shape != s.shape or not np.all(np.abs(one - s) <= tol):
            chk.fail(("generate_more_samples", "differs_from_one_request", pos_bucket(k0)), case,
                     observed=s.ravel()[:3], expected=one.ravel()[:3])
    else:
        chk.count("excluded_one_request_differential_position_gt_%d" % one_max)
    if cfg.get("block") and k0 + n <= one_max:
        # the same stretch from a twin that only ever issues CHUNK-sample requests
        f = new_generator(cfg)
        pieces, pos = [], ks
        while pos < k0 + n:
            m = min(CHUNK, k0 + n - pos)
            f.generate_more_samples(m)
            if pos + m > k0:
                pieces.append(np.array(f.get_samples(), copy=True)[..., max(0, k0 - pos):])
            pos += m
        ch = np.concatenate(pieces, axis=-1)
        chk.count("eval_differential_%d_sample_chunks" % CHUNK)
        if ch.shape != s.shape or not np.all(np.abs(ch - s) <= tol):
            chk.fail(("generate_more_samples", "differs_from_%d_sample_chunks" % CHUNK, pos_bucket(k0)), case,
                     observed=s.ravel()[:3], expected=ch.ravel()[:3])
    if k0 > ks and len(hist) > 1:
        f = new_generator(cfg)
        f.skip_samples_for_next_generation(k0 - ks)
        try:
            f.generate_more_samples(n)
        except ValueError:
            # the twin itself dies with the count error that is reported above for the
            # history ("skip(k0-1), generate(n)") that is part of this very enumeration
            chk.count("excluded_single_skip_differential_twin_raises")
            return
        one = np.asarray(f.get_samples())
        chk.count("eval_differential_single_skip")
        if one.shape != s.shape or not np.all(np.abs(one - s) <= tol):
            chk.fail(("generate_more_samples", "differs_from_single_skip", pos_bucket(k0)), case,
                     observed=s.ravel()[:3], expected=one.ravel()[:3])


def float_fields(o):
    """exact (hex) value of every scalar float attribute: the bfs digest rounds to a fixed
    number of decimals, too coarse for Ts = 1e-9"""
    try:
        d = bfs.state_of(o)
    except TypeError:
        return ()
    return tuple(sorted((k, float(v).hex()) for k, v in d.items()
                        if isinstance(v, (float, np.floating))))



# ----------------------------------------------------------------------
# lifecycle part: other ways of obtaining a generator (get_similar_fading_generator of a parent that
# already ran, the shape setter mid-history), a second live generator used alternately, error paths
# ----------------------------------------------------------------------
LIFE_FDTS_L = ((100.0, 1e-3, 8, None), (5.0, 3.25e-8, 1, (2, 3)))
LIFE_VALID = (("generate", 1), ("generate", 7), ("skip", 5), ("b_generate", 3), ("b_skip", 5),
              ("scribble", 0))      # the caller writes into the array it was last given (a valid thing to do)
# invalid requests: if they raise, the object must be field-for-field unchanged and go on as if nothing happened
LIFE_INVALID = (("generate", 2.5), ("generate", "3"), ("skip", None),
                ("set_shape", "x"), ("set_shape", (-1,)), ("set_shape", (2.5,)))
# outside the property's domain and not documented to raise: accepted -> terminal state, raised -> as above
LIFE_OUT_OF_DOMAIN = (("generate", 0), ("generate", -1), ("skip", -5))
# the generator is replaced by a clone of itself; the clone must go on exactly where the original stood (same
# position, same phases -> same following samples), the original must be unaffected by the use of the clone
LIFE_CLONE = (("clone", "copy"), ("clone", "deepcopy"), ("clone", "pickle"))


def clone_of(obj, how):
    import copy
    import pickle
    if how == "copy":
        return copy.copy(obj)
    if how == "deepcopy":
        return copy.deepcopy(obj)
    return pickle.loads(pickle.dumps(obj))


LIFE_FD0 = (0.0, 1e-3, 8, (2, 3))     # zero Doppler x shape reassignment after blocks of 1 / >= 2 samples


def life_configs(seed, thorough):
    out = []
    pre_sets = ((), (("generate", 7),), (("skip", 10 ** 6),), (("generate", 3500),))
    for Fd, Ts, L, shape in LIFE_FDTS_L + (LIFE_FD0,):
        other = 3 if shape is None else None
        # the shape is (re)assigned after a block of >= 2 samples / of 1 sample / a skip; to another shape and
        # to the SAME shape (which redraws the phases as well)
        shape_roots = [("shape", other, (("generate", 7),)), ("shape", other, (("skip", 10 ** 6),)),
                       ("shape", other, (("generate", 1),)), ("shape", shape, (("generate", 7),))]
        if Fd == 0:
            roots = [("ctor",), ("similar", ())] + shape_roots + [("shape", shape, (("generate", 1),))]
        else:
            roots = [("ctor",)] + [("similar", pre) for pre in pre_sets] + shape_roots
        for root in roots:
            ks = 1 + sum(n for _, n in root[2]) if root[0] == "shape" else 1
            out.append(dict(Fd=Fd, Ts=Ts, L=L, shape=shape, big=False, life=True, root=root, k_start=ks))
    for i, c in enumerate(out):
        c["index"] = 2000 + i
        c["rs_seed"] = 91000 + 1000 * seed + i
    return out


def _digest(g):
    # the random source is not part of the process state (and may be the numpy.random module itself)
    import types
    d = {k: v for k, v in bfs.state_of(g).items()
         if not isinstance(v, (types.ModuleType, np.random.RandomState))}
    return (bfs.digest(d, 13), float_fields(g))


class LState:
    def __init__(self):
        self.a = self.b = None        # JState views of the two live generators
        self.spec_b = None
        self.hist_a = self.hist_b = ()
        self.last = None              # "a" / "b": whose request the last event was
        self.problem = None           # (signature, observed, expected)
        self.note = None              # outcome of the last invalid call (tools/INVALID_CALL_POLICY.md)
        self.spec_a = None
        self.after_invalid = None     # the first invalid call of the history, if any
        self.orig = None              # view of the generator a clone was taken from
        self.clone_note = None


def _view(g, phi, psi, s0, k):
    v = JState()
    v.g, v.phi, v.psi, v.s0, v.k = g, phi, psi, s0, k
    keep(v, "constructor_sample" if k == 1 else "sample_held_when_obtained", 0 if k == 1 else None, 1)
    return v


def build_life(cfg, hist):
    st = LState()
    try:
        d = derive(cfg)
        g = d["g"]
        st.a = _view(g, *phases_of(g, cfg["shape"]), np.array(g.get_samples(), copy=True), cfg["k_start"])
        st.spec_a = dict(cfg)
        if d["parent"] is not None:
            # the second live object is the parent the generator was derived from
            pre = sum(n for _, n in cfg["root"][1])
            st.b = _view(d["parent"], d["parent_phi"], d["parent_psi"], d["parent_s0"], 1 + pre)
            st.spec_b = dict(cfg, root=("ctor",), k_start=1)
        else:
            st.spec_b = dict(cfg, root=("ctor",), k_start=1, rs_seed=cfg["rs_seed"] + 500)
            h = derive(st.spec_b)["g"]
            st.b = _view(h, *phases_of(h, cfg["shape"]), np.array(h.get_samples(), copy=True), 1)
    except Exception as e:  # noqa
        st.problem = (("obtain_generator", (cfg.get("root") or ("ctor",))[0], "raises", type(e).__name__),
                      repr(e), "a generator")
        return st
    for ev in hist:
        kind, n = ev
        on_b = kind.startswith("b_")
        o, other = (st.b, st.a) if on_b else (st.a, st.b)
        st.last = "b" if on_b else "a"
        st.note = None
        base = kind[2:] if on_b else kind
        if base == "clone":
            try:
                c = clone_of(o.g, n)
            except Exception as e:  # noqa - cloning is not part of the property: unavailable = outcome only
                st.clone_note = (n, "unavailable:" + type(e).__name__)
                return st
            st.clone_note = (n, "cloned")
            orig = JState()
            orig.g, orig.phi, orig.psi, orig.s0, orig.k, orig.kept = o.g, o.phi, o.psi, o.s0, o.k, o.kept
            st.orig = orig
            o.g, o.kept = c, []
            continue
        if base == "scribble":
            # the caller overwrites the array it was last given; nothing about the process may change
            if o.kept:
                kp = o.kept[-1]
                if kp["arr"].flags.writeable:
                    kp["arr"][...] = -7.0 + 3.0j
                kp["snap"], kp["k0"] = kp["arr"].tobytes(), None
            continue
        valid = base in ("generate", "skip") and isinstance(n, int) and not isinstance(n, bool) and \
            (n >= 1 if base == "generate" else n >= 0)
        other_before = _digest(other.g) if valid else None
        before = _digest(o.g) if not valid else None
        o.k_before = o.k
        o.prev_samples = np.array(o.g.get_samples(), copy=True)
        try:
            if base == "generate":
                o.g.generate_more_samples(n)
            elif base == "skip":
                o.g.skip_samples_for_next_generation(n)
            else:
                o.g.shape = n
            raised = None
        except Exception as e:  # noqa
            raised = e
        if valid and _digest(other.g) != other_before:
            st.problem = (("live_objects", "request_on_one_generator_changes_the_other", base),
                          "%s(%r) on one generator changed the other one" % (base, n), "independent objects")
            return st
        if valid:
            if raised is not None:
                o.err = (base, raised)
                return st
            if base == "generate":
                keep(o, "generate(%d)" % n, o.k, n)
            o.k += n
            if on_b:
                st.hist_b += ((base, n),)
            else:
                st.hist_a += ((base, n),)
        else:
            # An invalid call is free as a call (raise / accept / change the object): outcome only.
            what = "%s(%s)" % (base, type(n).__name__ if not isinstance(n, (int, float)) else repr(n))
            changed = _digest(o.g) != before
            st.note = (what, "accepted" if raised is None else "raised:" + type(raised).__name__,
                       "object_changed" if changed else "object_unchanged")
            if st.after_invalid is None and (changed or raised is None):
                # only a call that was accepted or changed the object can be the cause of what follows; after a
                # call that raised and left the object field-for-field unchanged the plain signatures apply
                st.after_invalid = what
            # ... but the generator must still be a coherent instance: re-read position, shape and phases
            # from what it reports and go on judging every later VALID request from there.
            spec = st.spec_b if on_b else st.spec_a
            prob = resync(o, spec, what, changed)
            if prob is not None:
                st.problem = prob
                return st
    return st


def resync(o, spec, what, changed):
    """re-synchronise the reference model of one generator from its reported state after an invalid call;
    returns a problem tuple if that state is not a coherent generator"""
    g = o.g
    pos = position_of(g)
    if pos is None:
        # the position is not readable: it is still known when the call left the object untouched
        if changed:
            o.pos_unknown = True
        k = o.k
    else:
        k = int(round(pos))
        if not abs(pos - k) <= REL_T * abs(k) + ABS_T:
            return (("after_invalid_call", what, "generator_left_at_non_integer_position"),
                    "position %r samples" % pos, "an integer sample position")
    shape = g.shape
    try:
        ok = all(isinstance(x, (int, np.integer)) and x >= 0 for x in shape_tuple(shape))
    except Exception:  # noqa
        ok = False
    phi, psi = phases_of(g, shape) if ok else (None, None)
    have_names = _private(g, *PHI_NAMES) is not MISSING and _private(g, *PSI_NAMES) is not MISSING
    if not ok or (have_names and phi is None):
        return (("after_invalid_call", what, "reported_shape_disagrees_with_phases"),
                "shape %r, phases %r" % (shape, np.shape(_private(g, *PHI_NAMES, default=None))),
                "phases of shape (L,) + shape + (1,)")
    o.k = k
    spec["shape"] = shape
    for kp in o.kept:
        # whatever the invalid call did to pieces handed out earlier is free; from here on they must stay
        kp["k0"], kp["snap"] = None, kp["arr"].tobytes()
    if changed:
        o.phi, o.psi = phi, psi
        spec["no_twins"] = True       # an identically seeded twin no longer describes this object
    return None


def _listify(x):
    return [_listify(e) for e in x] if isinstance(x, (tuple, list)) else x


def _tuplify(x):
    return tuple(_tuplify(e) for e in x) if isinstance(x, (tuple, list)) else x


def life_case(cfg, hist):
    c = case_of(cfg, hist)
    c.update(part="lifecycle", root=_listify(cfg["root"]), k_start=cfg["k_start"], history=_listify(hist))
    return c


def check_life(chk, cfg, hist, st):
    case = life_case(cfg, hist)
    chk.count("eval_lifecycle_states")
    chk.outcome("lifecycle_root", (cfg["root"][0], len(cfg["root"]) > 1 and repr(cfg["root"][-1])))
    if st.note is not None:
        chk.outcome("invalid_call", st.note)
        chk.count("eval_invalid_calls")
        if st.a is not None and (st.a.pos_unknown or st.b.pos_unknown):
            chk.outcome("oracle_input_unavailable", "position_after_object_changing_invalid_call")
            chk.count("excluded_histories_after_invalid_call_position_unreadable")
    if st.problem is not None:
        sig, obs, exp = st.problem
        chk.fail(sig, case, observed=obs, expected=exp)
        return
    if st.note is not None:
        return
    if st.clone_note is not None:
        chk.outcome("clone", (cfg["root"][0], cfg["Fd"] == 0) + st.clone_note)
        chk.count("eval_clones")
        if st.orig is None:
            return                     # could not be cloned (e.g. its random source is a module): nothing to judge
    if st.orig is not None and hist[-1][0] != "clone":
        check_original_after_clone(chk, st, case)
    if hist and hist[-1][0] == "clone":
        g, o = st.a.g, st.orig.g
        for name in ("Fd", "Ts", "L"):
            if getattr(g, name) != getattr(o, name):
                chk.fail(("clone", st.clone_note[0], "property_" + name), case, observed=getattr(g, name),
                         expected=getattr(o, name))
        if (g.shape is None) != (o.shape is None) or shape_tuple(_tuplify(g.shape)) != shape_tuple(_tuplify(o.shape)):
            chk.fail(("clone", st.clone_note[0], "property_shape"), case, observed=g.shape, expected=o.shape)
        return
    if not hist:
        # the derived generator: configuration of the parent, sample 0 of its own process
        check_state(chk, cfg, (), st.a, case=case)
        if cfg["root"][0] != "similar":
            check_state(chk, st.spec_b, (), st.b, case=case)
        return
    c = chk if st.after_invalid is None else AfterInvalid(chk, st.after_invalid)
    # pieces handed out by VALID requests and overwritten by VALID requests: not a consequence of the invalid
    # call (their snapshots were refreshed at the invalid call), so the plain signature is used
    if hist[-1][0] == "scribble":
        # nothing was requested: only the pieces handed out so far are looked at again
        check_kept(chk, st.spec_a, st.a, case)
        check_kept(chk, st.spec_b, st.b, case)
        return
    if st.last == "a":
        _check_state(c, st.spec_a, st.hist_a, st.a, case)
    else:
        chk.count("eval_second_live_object")
        _check_state(c, st.spec_b, st.hist_b, st.b, case)
    if st.a.err is None and st.b.err is None:
        check_kept(chk, st.spec_a, st.a, case)
        check_kept(chk, st.spec_b, st.b, case)      # ... also the pieces the OTHER generator handed out


def check_original_after_clone(chk, st, case):
    """the original the clone was taken from still stands where it stood: its next samples are those of its own
    position (formula / identically seeded twin), and the pieces it handed out are untouched"""
    o, spec = st.orig, st.spec_a
    if spec.get("no_twins"):
        return
    check_kept(chk, spec, o, case)
    shp = shape_tuple(spec["shape"])
    o.g.generate_more_samples(3)
    s = np.asarray(o.g.get_samples())
    chk.count("eval_original_after_clone")
    if s.shape != shp + (3,):
        chk.fail(("clone", st.clone_note[0], "original_wrong_shape"), case, observed=s.shape, expected=shp + (3,))
        return
    tol = value_tol(spec, o.k + 3)
    if not no_formula(chk, o):
        ref = jakes_reference(spec, o.phi, o.psi, o.k, 3)
        if not np.all(np.abs(s - ref) <= tol):
            chk.fail(("clone", st.clone_note[0], "original_affected_by_use_of_the_clone"), case,
                     observed=s.ravel()[:3], expected=ref.ravel()[:3])
    ks = spec.get("k_start", 1)
    f = new_generator(spec)
    if o.k > ks:
        f.skip_samples_for_next_generation(o.k - ks)
    f.generate_more_samples(3)
    w = np.asarray(f.get_samples())
    if w.shape != s.shape or not np.all(np.abs(w - s) <= tol):
        chk.fail(("clone", st.clone_note[0], "original_affected_by_use_of_the_clone"), case,
                 observed=s.ravel()[:3], expected=w.ravel()[:3])


class AfterInvalid:
    """violations found after an invalid call get the signature after_invalid_call|<what>|<relation>"""
    def __init__(self, chk, what):
        self._chk, self._what = chk, what

    def __getattr__(self, name):
        return getattr(self._chk, name)

    def fail(self, sig, case, observed=None, expected=None, msg=""):
        self._chk.fail(("after_invalid_call", self._what, ".".join(str(x) for x in sig)), case,
                       observed=observed, expected=expected, msg=msg)


def run_life(chk, cfg, depth):
    evs = list(LIFE_VALID) + list(LIFE_INVALID) + list(LIFE_OUT_OF_DOMAIN) + list(LIFE_CLONE)

    def b(hist):
        return build_life(cfg, hist)

    def enabled(hist, st):
        if st.problem is not None or st.a is None or st.a.err is not None or st.b.err is not None:
            return []
        if st.a.pos_unknown or st.b.pos_unknown:
            return []          # an invalid call changed the object and its position cannot be re-read
        if len(hist) + 1 >= depth:
            # the last event of a history is only useful when it observes something
            return [("generate", 7), ("b_generate", 3)]
        ok = evs
        if st.clone_note is not None and st.orig is None:
            return []                     # cloning unavailable: nothing follows
        if any(e[0] == "clone" for e in hist):
            ok = [e for e in ok if e[0] != "clone"]          # one clone per history
        if any(e in LIFE_INVALID or e in LIFE_OUT_OF_DOMAIN for e in hist):
            ok = [e for e in ok if e in LIFE_VALID or e in LIFE_CLONE]   # one invalid call per history (budget)
        if hist:
            ok = [e for e in ok if e[0] != "scribble" or hist[-1][0] in ("generate", "b_generate")]
        return ok

    def invariant(hist, st):
        with guarded(chk, ("jakes", "lifecycle"), life_case(cfg, hist)):
            check_life(chk, cfg, hist, st)

    def canon(hist, st):
        if st.problem is not None or st.a is None:
            return ("failed", hist)
        return (st.a.k, st.b.k, st.note, st.after_invalid, st.clone_note, _digest(st.a.g), _digest(st.b.g))

    bfs.BFS(chk, b, enabled, invariant, canon, depth, label="life%d" % cfg["index"]).run([()])


# ----------------------------------------------------------------------
# module-level generate_jakes_samples with explicit current_time (chains of two calls) and
# RayleighSampleGenerator (shape / count only)
# ----------------------------------------------------------------------
def function_case(chk, case):
    from pyphysim.channels import fading_generators as FG
    Fd, Ts, L, shape, k0 = case["Fd"], case["Ts"], case["L"], _tuplify(case["shape"]), case["k0"]
    cfg = dict(Fd=Fd, Ts=Ts, L=L, shape=shape, index=3000)
    rs = np.random.RandomState(case["phase_seed"])
    dims = (L,) + shape_tuple(shape) + (1,)
    phi, psi = 2 * math.pi * rs.rand(*dims), 2 * math.pi * rs.rand(*dims)
    if True:
        if True:
            if True:
                if True:
                    if True:
                        t, k = k0 * Ts, k0
                        held = []
                        for n in case["n"]:
                            chk.count("eval_function_calls")
                            p_in, q_in = phi.copy(), psi.copy()
                            t_new, h = FG.generate_jakes_samples(Fd, Ts, n, L, shape, t, p_in, q_in)
                            if not (np.array_equal(p_in, phi) and np.array_equal(q_in, psi)):
                                chk.fail(("generate_jakes_samples", "phase_arguments_modified"), case)
                            for a0, b0 in held:
                                if a0.tobytes() != b0 or np.shares_memory(a0, h):
                                    chk.fail(("returned_array", "overwritten_by_a_later_request",
                                              "generate_jakes_samples"), case)
                            held.append((h, np.asarray(h).tobytes()))
                            want_shape = shape_tuple(shape) + (n,)
                            if np.shape(h) != want_shape:
                                chk.fail(("generate_jakes_samples", "wrong_shape", pos_bucket(k)), case,
                                         observed=np.shape(h), expected=want_shape)
                                break
                            dt_tol = (REL_T * (k + n) + ABS_T) * Ts
                            if not abs(t_new - (k + n) * Ts) <= dt_tol:
                                chk.fail(("generate_jakes_samples", "returned_current_time", pos_bucket(k)), case,
                                         observed=t_new, expected=(k + n) * Ts)
                            ref = jakes_reference(cfg, phi, psi, k, n)
                            if not np.all(np.abs(h - ref) <= value_tol(cfg, k + n)):
                                chk.fail(("generate_jakes_samples", "value_vs_jakes_formula", pos_bucket(k)), case,
                                         observed=np.asarray(h).ravel()[:3], expected=ref.ravel()[:3])
                            chk.outcome("function_call", (decade(k), n))
                            t, k = t_new, k + n


def check_function_part(chk, seed):
    from pyphysim.channels import fading_generators as FG
    for ci, (Fd, Ts, L, shape) in enumerate(LIFE_FDTS_L + ((0.4, 1.0, 8, (3,)),)):
        for k0 in (0, 1, 7, 3500, 10 ** 6, 10 ** 7 + 3):
            for n1 in (1, 7, 100, 4097):
                for n2 in (1, 7, 100, 4097):
                    case = {"part": "function", "Fd": Fd, "Ts": Ts, "L": L, "shape": shape, "k0": k0,
                            "n": [n1, n2], "phase_seed": 4242 + 1000 * seed + ci}
                    with guarded(chk, ("generate_jakes_samples",), case):
                        function_case(chk, case)
        # phases drawn by the function itself: shape / count only
        np.random.seed(99 + seed)
        t_new, h = FG.generate_jakes_samples(Fd, Ts, 13, L, shape)
        if np.shape(h) != shape_tuple(shape) + (13,):
            chk.fail(("generate_jakes_samples", "wrong_shape", "own_phases"),
                     {"part": "function", "Fd": Fd, "Ts": Ts, "L": L, "shape": shape, "k0": 0, "n": [13]},
                     observed=np.shape(h), expected=shape_tuple(shape) + (13,))


def check_rayleigh_part(chk, seed):
    """the statement's shape / count clause applies; values are independent draws"""
    from pyphysim.channels.fading_generators import RayleighSampleGenerator
    for shape in (None, 3, (2, 3)):
        shp = shape_tuple(shape)
        for hist in [()] + [(a,) for a in (("generate", 1), ("generate", 100), ("skip", 5), ("similar", 0))] + \
                [(("generate", 7), ("skip", 10 ** 6), ("generate", 2)), (("set_shape", 4), ("generate", 3)),
                 (("generate", 5), ("generate", 5), ("skip", 1)), (("generate", 1), ("skip", 3), ("generate", 1), ("skip", 1)),
                 (("similar", 0), ("generate", 5)), (("generate", 5), ("set_shape", None), ("generate", 2))]:
            case = {"part": "rayleigh", "shape": shape, "history": [list(h) for h in hist], "np_seed": 7 + seed}
            with guarded(chk, ("rayleigh",), case):
                rayleigh_case(chk, case)


def rayleigh_case(chk, case):
    from pyphysim.channels.fading_generators import RayleighSampleGenerator
    shape = _tuplify(case["shape"])
    hist = [tuple(h) for h in case["history"]]
    if True:
        if True:
            if True:
                np.random.seed(case["np_seed"])
                g = RayleighSampleGenerator(shape)
                cur = shape_tuple(shape)
                chk.count("eval_rayleigh_states")
                held = []
                for kind, n in hist:
                    for a0, b0, w0 in held:
                        if a0.tobytes() != b0:
                            chk.fail(("returned_array", "overwritten_by_a_later_request", "rayleigh"), case,
                                     observed="array returned by %s changed" % w0)
                    a0 = g.get_samples()
                    if isinstance(a0, np.ndarray) and not any(a0 is x[0] for x in held):
                        if any(np.shares_memory(a0, x[0]) for x in held):
                            chk.fail(("returned_array", "shares_memory_with_a_later_result", "rayleigh"), case)
                        held.append((a0, a0.tobytes(), "before %s" % kind))
                    before = np.array(g.get_samples(), copy=True)
                    if kind == "generate":
                        g.generate_more_samples(n)
                        s = np.asarray(g.get_samples())
                        if s.shape != cur + (n,) or not np.all(np.isfinite(s)) or not np.iscomplexobj(s):
                            chk.fail(("rayleigh", "generate_wrong_shape_or_values"), case,
                                     observed=(s.shape, str(s.dtype)), expected=cur + (n,))
                    elif kind == "skip":
                        g.skip_samples_for_next_generation(n)
                        if not np.array_equal(np.asarray(g.get_samples()), before):
                            chk.fail(("rayleigh", "skip_changes_get_samples"), case)
                    elif kind == "set_shape":
                        g.shape = _tuplify(n)
                        cur = shape_tuple(_tuplify(n))
                    else:
                        g = g.get_similar_fading_generator()
                        if shape_tuple(g.shape) != cur:
                            chk.fail(("rayleigh", "similar_generator_other_shape"), case, observed=g.shape,
                                     expected=cur)
                    chk.outcome("rayleigh", (kind, cur))


# ----------------------------------------------------------------------
# large single requests: the temporary L x shape x n of ONE request crosses plausible size caps
# ----------------------------------------------------------------------
LARGE_L = (5, 8, 10, 12, 20)
LARGE_SHAPES = (None, (2,), (3, 2), (4, 4))
LARGE_UNIT = 2 ** 20
LARGE_WINDOW = 384        # samples per window regenerated by the second generator
LARGE_FOLLOW_UP = 3       # size of the request issued after the large one(s)


def large_cases(seed, thorough):
    """[(cfg, n)]: request sizes whose temporary size L*prod(shape)*n sits just below / just above powers of
    two and at 1.5, 3, 5 times 2**20 elements (quick: two sizes per (L, shape), rotating; thorough: all)"""
    small = ((1.0, 0), (1.0, 1), (1.5, 0))
    big = ((3.0, 0), (5.0, 0))
    extra = ((2.0, 0), (2.0, 1), (3.0, 1), (4.0, 0), (4.0, 1), (5.0, 1), (6.0, 0), (7.0, 0), (8.0, 0))
    # temporaries crossing 2**22 and 2**23 elements, n NOT a multiple of a plausible block length
    # (2**22 // (L*prod(shape)) +- 1, 1.5 x, 2.3 x; 2**23 +, 1.5 x)
    cross = ((4.0, 1), (6.0, 0), (9.2, 0), (8.0, 1))
    cross_thorough = ((4.0, -1), (9.2, 0), (8.0, 1), (12.0, 0))
    out = []
    i = 0
    for L in LARGE_L:
        for shape in LARGE_SHAPES:
            per = L * int(np.prod(shape_tuple(shape), dtype=int))
            targets = (small + big + extra + cross_thorough) if thorough else \
                ((small[i % 3], big[i % 2]) + ((cross[(i // 3) % 4],) if i % 3 == 0 else ()))
            for mult, plus in targets:
                n = int(mult * LARGE_UNIT) // per + plus
                cfg = dict(Fd=100.0, Ts=1e-3, L=L, shape=shape, index=4000 + i, rs_seed=55000 + 1000 * seed + i,
                           k_start=1)
                out.append((cfg, n, "%gx2^20%s" % (mult, "+" if plus else "")))
            i += 1
    return out


def jakes_at(cfg, phi, psi, positions):
    """first-principles value at arbitrary integer positions, all rays, one ray at a time"""
    t = np.asarray(positions, dtype=np.int64).astype(float) * cfg["Ts"]
    acc = np.zeros(shape_tuple(cfg["shape"]) + (t.size,), dtype=complex)
    for l in range(cfg["L"]):
        acc += np.exp(1j * (2.0 * math.pi * cfg["Fd"] * np.cos(phi[l]) * t + psi[l]))
    return acc / math.sqrt(cfg["L"])


def large_case(chk, cfg, n, label, full):
    case = dict(case_of(cfg, (("generate", n),)), part="large", label=label, full=bool(full))
    shp = shape_tuple(cfg["shape"])
    per = cfg["L"] * int(np.prod(shp, dtype=int))
    chk.count("eval_large_requests")
    chk.count("large_request_temporary_elements", per * n)
    chk.outcome("large_request", (cfg["L"], cfg["shape"], label))
    chk.nontriv(("large", cfg["L"], cfg["shape"], n))
    g = new_generator(cfg)
    phi, psi = phases_of(g, cfg["shape"])
    g.generate_more_samples(n)                     # positions 1 .. n in ONE request
    s = np.asarray(g.get_samples())
    if s.shape != shp + (n,):
        chk.fail(("generate_more_samples", "large_single_request", "wrong_shape"), case, observed=s.shape,
                 expected=shp + (n,))
        return
    tol = value_tol(cfg, n + 1)
    if full:
        idx = np.arange(n)
    else:
        # first / last samples, an even stride, and both sides of every power-of-two boundary
        idx = set(range(0, min(n, 64))) | set(range(max(0, n - 64), n)) | set(range(0, n, max(1, n // 1500)))
        b = 256
        while b < n:
            idx |= {b - 1, b}
            b *= 2
        idx = np.array(sorted(idx))
    worst = 0.0
    for a in (range(0, idx.size, 8192) if not no_formula(chk, phi) else ()):   # the oracle works in chunks
        part = idx[a:a + 8192]
        d = np.abs(s[..., part] - jakes_at(cfg, phi, psi, part + 1))
        worst = max(worst, float(d.max()))
    chk.count("samples_compared", int(idx.size) * int(np.prod(shp, dtype=int)))
    if not worst <= tol:
        chk.fail(("generate_more_samples", "large_single_request", "value_vs_jakes_formula"), case,
                 observed="max |h-ref| = %.3e over %d compared samples (all %d rays), tolerance %.3e, "
                 "temporary %d elements" % (worst, idx.size, cfg["L"], tol, per * n),
                 expected="L^-1/2 sum over ALL rays")
    if not np.all(np.abs(s) <= math.sqrt(cfg["L"]) * (1 + 1e-12)):
        chk.fail(("generate_more_samples", "large_single_request", "magnitude_exceeds_sqrt_L"), case,
                 observed=float(np.abs(s).max()))
    # the same stretch in smaller requests on a second generator with the same seed
    f = new_generator(cfg)
    pos = 1
    twin_ok = True
    starts = sorted(set([1, max(1, n // 2 - LARGE_WINDOW // 2), max(1, n - LARGE_WINDOW + 1)])) if not full \
        else list(range(1, n + 1, 4096))
    win = LARGE_WINDOW if not full else 4096
    for a in starts:
        if a < pos:
            continue
        if a > pos:
            f.skip_samples_for_next_generation(a - pos)
        m = min(win, n + 1 - a)
        f.generate_more_samples(m)
        w = np.asarray(f.get_samples())
        pos = a + m
        chk.count("eval_differential_smaller_requests")
        if w.shape != shp + (m,) or not np.all(np.abs(w - s[..., a - 1:a - 1 + m]) <= tol):
            chk.fail(("generate_more_samples", "large_single_request", "differs_from_smaller_requests"), case,
                     observed=s[..., a - 1:a + 2].ravel()[:3], expected=w.ravel()[:3])
            twin_ok = False
            break
    # a second request of the same size must not touch the array returned by the first one
    if full or per * n <= 1.6 * LARGE_UNIT:
        snap = s.tobytes()
        g.generate_more_samples(n)
        s2 = g.get_samples()
        chk.count("eval_kept_array_rechecks")
        chk.count("kept_arrays_rechecked", 2)
        if s.tobytes() != snap:
            chk.fail(("returned_array", "overwritten_by_a_later_request", "generate"), case,
                     observed="the array returned by generate(%d) changed after a second generate(%d)" % (n, n),
                     expected="returned samples stay what they were")
        elif np.shares_memory(s, s2):
            chk.fail(("returned_array", "shares_memory_with_a_later_result"), case)
        del s2
    # the POSITION after the large request(s): a small follow-up request must continue the process exactly there
    p_next = int(st_pos(g_requests=(2 if (full or per * n <= 1.6 * LARGE_UNIT) else 1), n=n))
    g.generate_more_samples(LARGE_FOLLOW_UP)
    s3 = np.asarray(g.get_samples())
    chk.count("eval_large_request_follow_ups")
    tol3 = value_tol(cfg, p_next + LARGE_FOLLOW_UP)
    if s3.shape != shp + (LARGE_FOLLOW_UP,):
        chk.fail(("generate_more_samples", "after_large_request", "wrong_shape"), case, observed=s3.shape,
                 expected=shp + (LARGE_FOLLOW_UP,))
        return
    if not no_formula(chk, phi):
        ref3 = jakes_reference(cfg, phi, psi, p_next, LARGE_FOLLOW_UP)
        if not np.all(np.abs(s3 - ref3) <= tol3):
            chk.fail(("generate_more_samples", "after_large_request", "value_vs_jakes_formula"), case,
                     observed="follow-up generate(%d) at position %d after generate(%d): %r"
                     % (LARGE_FOLLOW_UP, p_next, n, s3.ravel()[:2]), expected=ref3.ravel()[:2])
    if twin_ok:
        # the twin reached the same position through small requests and skips only
        if p_next > pos:
            f.skip_samples_for_next_generation(p_next - pos)
        f.generate_more_samples(LARGE_FOLLOW_UP)
        w3 = np.asarray(f.get_samples())
        chk.count("eval_differential_smaller_requests")
        if w3.shape != s3.shape or not np.all(np.abs(w3 - s3) <= tol3):
            chk.fail(("generate_more_samples", "after_large_request", "differs_from_twin_reaching_the_position_"
                      "by_small_requests"), case, observed=s3.ravel()[:2], expected=w3.ravel()[:2])


def st_pos(g_requests, n):
    """reference model: position after the constructor's sample and g_requests requests of n samples"""
    return 1 + g_requests * n


def run_config(chk, cfg, depth):
    if cfg.get("large"):
        thorough = chk.tier == "thorough"
        for c2, n, label in cfg["cases"]:
            with guarded(chk, ("jakes", "large_single_request"), dict(case_of(c2, (("generate", n),)), part="large")):
                large_case(chk, c2, n, label, thorough)
            chk.states += 1
            chk.transitions += 1
            chk.traces_validated += 1
        return
    if cfg.get("life"):
        return run_life(chk, cfg, depth)
    if cfg.get("other_parts"):
        check_function_part(chk, chk.seed)
        check_rayleigh_part(chk, chk.seed)
        chk.states += 1
        return
    evs = events(cfg)

    def b(hist):
        return build(cfg, hist)

    def enabled(hist, st):
        if st.err is not None:
            return []
        if cfg.get("inttypes"):
            # the last event of a history observes: generates only
            return [e for e in evs if e[0] == "generate"] if len(hist) + 1 >= depth else evs
        return block_enabled(cfg, hist) if cfg.get("block") else evs

    def invariant(hist, st):
        with guarded(chk, ("jakes",), case_of(cfg, hist)):
            check_state(chk, cfg, hist, st)

    def canon(hist, st):
        if st.err is not None:
            return ("failed", hist)
        return (st.k, bfs.digest(bfs.state_of(st.g), 12), float_fields(st.g))

    bfs.BFS(chk, b, enabled, invariant, canon, depth,
            label="cfg%d%s" % (cfg["index"], "big" if cfg.get("big") else "")).run([()])
    if cfg.get("block"):
        chk.count("block_part_configurations")


def plan(chk):
    """[(cfg, depth)] - identical in every process"""
    thorough = chk.tier == "thorough"
    jobs = []
    # expensive jobs first so that the shards are balanced
    for c in sorted(block_configs(chk.seed, thorough),
                    key=lambda c: -(c["L"] * (3 if c["shape"] else 4))):
        jobs.append((c, 3))
    for c in int_configs(chk.seed):
        jobs.append((c, 4 if thorough else 3))
    lc = large_cases(chk.seed, thorough)
    nl = 16 if thorough else 4
    for j in range(nl):
        jobs.append((dict(large=True, cases=lc[j::nl], Fd=100.0, Ts=1e-3, L=0, shape=None, rs_seed=0, index=-3), 1))
    for c in life_configs(chk.seed, thorough):
        jobs.append((c, 4 if thorough else 3))
    jobs.append((dict(other_parts=True, Fd=0.0, Ts=1.0, L=1, shape=None, rs_seed=0, index=-2), 0))
    if thorough:
        for c in configs(chk.seed, big=True):
            jobs.append((c, 3))
    for c in configs(chk.seed):
        # thorough: depth 5 for the scalar generator, depth 4 for the array-shaped ones (cost)
        jobs.append((c, (5 if c["shape"] is None else 4) if thorough else 3))
    return jobs


def main(chk: Check):
    chk.assume("timing tolerance |t-(k+i)Ts| <= %g*(k+n)*Ts + %g*Ts (the implementation stretches its "
               "step by 1+1e-10 on purpose); value tolerance = 2 pi Fd sqrt(L) * that + %g" % (REL_T, ABS_T, ABS_V))
    chk.assume("configurations restricted to Fd*Ts <= 0.5 (Nyquist)")
    chk.assume("the Jakes-formula relation needs the generator's ray angles / phases, which have no public accessor: "
               "they are read right after construction through candidate private names %r / %r; when unreadable the "
               "formula relation is skipped (outcome oracle_input_unavailable) and the formula-free relations "
               "(twin generators with equal RS seeds: one request / single skip / 500-sample chunks, shapes, "
               "|h|<=sqrt(L), Fd=0, kept arrays) keep running" % (PHI_NAMES[:2], PSI_NAMES[:2]))
    chk.assume("a state in which a request raised is terminal: the position is undefined afterwards")
    jobs = plan(chk)
    chk.extra["configurations"] = len(jobs)
    chk.extra["pairwise_axes"] = {
        "request size type x position": "py/int32/int64/uint32 sizes x positions below/across/beyond 2^31 and 2^32 "
                                        "(inttypes part, every (skip type, generate type) pair)",
        "Fd x lifecycle root": "Fd in {0, 5, 100} x {constructor, similar generator, shape reassigned after a block "
                               "of 1 / of 7 samples / a skip, to another and to the same shape}",
        "request size x shape/L": "large and block-threshold sizes x shape {None, array} x L (block / large parts)",
        "invalid call x later valid request": "lifecycle part depth 3",
        "two live generators x request kind": "lifecycle part (b_generate / b_skip)"}
    chk.extra["depth"] = sorted(set(d for _, d in jobs))
    chk.extra["tolerances"] = {"REL_T": REL_T, "ABS_T_samples": ABS_T, "ABS_V": ABS_V,
                               "one_request_differential_max_position": DIFF_ONE_REQUEST_MAX}

    def worker(i, n, c):
        for j in range(i, len(jobs), n):
            cfg, depth = jobs[j]
            run_config(c, cfg, depth)

    run_shards(chk, worker)
    if chk.counters.get("eval_formula_comparisons", 0) == 0:
        chk.cap("the Jakes-formula relation was unavailable everywhere (phases not readable); "
                "only the formula-free relations were checked")
    chk.sample(case_of(jobs[-1][0], (("generate", 1), ("skip", 10 ** 7 + 3), ("generate", 1))))
    if not [v for v in chk.violations.values() if "time_vector_has_n+1" not in "|".join(v["sig"])]:
        # vacuity only matters for a "holds" verdict; a run with other violations must stay a VIOLATION
        chk.require_outcomes("position_decade", 6)
        chk.require_outcomes("generate_result", 20)
        chk.require_outcomes("lifecycle_root", 7)
        chk.require_outcomes("invalid_call", 6)
        chk.require_outcomes("function_call", 12)
        chk.require_outcomes("rayleigh", 6)
        chk.require_outcomes("large_request", 30)
        chk.require_outcomes("size_type_x_position", 12)
        chk.require_outcomes("clone", 6)


def replay(case, chk: Check):
    part = case.get("part")
    if part == "function":
        with guarded(chk, ("generate_jakes_samples",), case):
            function_case(chk, case)
        return
    if part == "rayleigh":
        with guarded(chk, ("rayleigh",), case):
            rayleigh_case(chk, case)
        return
    if part == "large":
        cfg = dict(Fd=case["Fd"], Ts=case["Ts"], L=case["L"], shape=_tuplify(case["shape"]),
                   rs_seed=case["rs_seed"], k_start=1, index=-1)
        with guarded(chk, ("jakes", "large_single_request"), case):
            large_case(chk, cfg, int(case["history"][0][1]), case.get("label", ""), case.get("full", False))
        return
    if part == "lifecycle":
        cfg = dict(Fd=case["Fd"], Ts=case["Ts"], L=case["L"], shape=_tuplify(case["shape"]),
                   rs_seed=case["rs_seed"], life=True, root=_tuplify(case["root"]), k_start=case["k_start"],
                   index=-1)
        hist = tuple((h[0], _tuplify(h[1])) for h in case["history"])
        with guarded(chk, ("jakes", "lifecycle"), case):
            check_life(chk, cfg, hist, build_life(cfg, hist))
        return
    cfg = dict(Fd=case["Fd"], Ts=case["Ts"], L=case["L"], shape=case["shape"],
               rs_seed=case["rs_seed"], big=case.get("big", False), block=case.get("block", False),
               index=-1)
    if isinstance(cfg["shape"], list):
        cfg["shape"] = tuple(cfg["shape"])
    hist = tuple((h[0], int(h[1])) + tuple(h[2:]) for h in case["history"])
    with guarded(chk, ("jakes",), case):
        check_state(chk, cfg, hist, build(cfg, hist))
