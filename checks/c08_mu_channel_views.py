"""C08 - multi-user channel matrix views stay coherent across any sequence of
updates.

Engine E3: explicit-state BFS over operation histories of real
`MultiUserChannelMatrix` / `MultiUserChannelMatrixExtInt` objects.  A state is the
event history; `build(hist)` creates a fresh object and replays the events with
the random source scripted (`multiuser.randn_c_RS` -> deterministic family).
Canonical key = reference-model state + digest of the object's whole `__dict__`
(taken BEFORE the invariants read any view, so cache population is part of the
key).  In every state ALL views are compared with the reference model
(layout, raw matrix, path loss, noise variance, post filters).
"""
import numpy as np

from vmc import bfs, families, numerics
from vmc.parallel import run_shards, shard

PID = "C08"
LEVEL = "model_checking"
ENGINE = "E3 BFS over operation histories of real channel-matrix objects"
RULE = ("events = randomize(layout A|B), init_from_channel_matrix(M1|M2 x layout), set_pathloss(P1|P2|None"
        " [x ext-int path loss]), noise_var=None|0|0.1, set_post_filter(W1|W2|None), cache-populating reads of"
        " H / big_H / get_Hkl / get_Hk (/ big_H_no_ext_int / H_no_ext_int / get_Hk_without_ext_int), corrupt_data,"
        " corrupt_concatenated_data; every history up to the depth bound after an initialiser; oracle = matrix"
        " reference model evaluated on every view in every state. Non-trivial = state whose history holds >= 2"
        " mutators; distinct = distinct canonical keys")

LAYOUTS2 = {"A": ([1, 2], [2, 1]), "B": ([2, 1], [1, 2])}
LAYOUTS3 = {"A": ([1, 2, 1], [2, 1, 1]), "B": ([2, 1, 1], [1, 1, 2])}
LAYOUTS = LAYOUTS2
K = 2          # set per exploration job (set_K); forked workers run jobs sequentially


def set_K(k):
    global K, LAYOUTS
    K = k
    LAYOUTS = LAYOUTS2 if k == 2 else LAYOUTS3
TOL_C = 1e3


def P_of(name):
    if name is None:
        return None
    base = {"P1": [[1.0, 0.25, 0.49], [0.04, 0.81, 1.44], [0.3, 0.02, 0.64]],
            "P2": [[0.5, 1.0, 0.01], [0.09, 0.0625, 0.7], [2.25, 0.16, 0.36]],
            # link-budget scale path loss (120-150 dB)
            "P3": [[1e-12, 2.5e-13, 4e-15], [4e-14, 8.1e-13, 1e-15], [3e-13, 2e-14, 6.4e-13]],
            # ANOTHER link-budget scale path loss: every entry differs from P3's by far less than any
            # absolute tolerance a comparison might use (1e-8), and by a factor 1.5..9 relatively
            "P4": [[4e-12, 1e-13, 9e-15], [1.6e-13, 2e-13, 6e-15], [1e-13, 9e-14, 1.6e-13]],
            # the user part of P3 with another external-interference part (see E_of)
            "P5": [[1e-12, 2.5e-13, 4e-15], [4e-14, 8.1e-13, 1e-15], [3e-13, 2e-14, 6.4e-13]]}[name]
    return np.array(base)[:K, :K]


def E_of(name, Ke):
    base = {"P1": [[0.36, 0.7], [1.21, 0.2], [0.9, 0.05]], "P2": [[0.01, 2.0], [0.49, 0.3], [1.69, 0.11]],
            "P3": [[3.6e-13, 7e-14], [1.21e-12, 2e-15], [9e-13, 5e-14]],
            "P4": [[9e-14, 2.8e-13], [4e-13, 1.8e-14], [1e-13, 4.5e-13]],
            "P5": [[1.44e-12, 1e-14], [3e-13, 3.2e-14], [2.25e-13, 2e-13]]}[name]
    return np.array(base)[:K, :Ke]


def M_of(name, shape):
    if name == "M3":        # a channel of tiny magnitude (everything in the property is linear in H)
        return families.generic(13, shape, True, tag=8) * 1e-9
    return families.generic({"M1": 11, "M2": 12}[name], shape, True, tag=8)


def W_of(name, Nr):
    if name is None:
        return None
    s0 = {"W1": 21, "W2": 31}[name]
    return [families.generic(s0 + k, (int(n), int(n)), True, tag=8) + 1.5 * np.eye(int(n))
            for k, n in enumerate(Nr)]


def data_for(Nt, nsym=2, tag=9):
    return [families.generic(40 + k, (int(n), nsym), True, tag=tag) for k, n in enumerate(Nt)]


# ----------------------------------------------------------------------
class Scripted:
    """replacement of multiuser.randn_c_RS: deterministic family member per call"""

    def __init__(self):
        self.count = 0

    def __call__(self, RS, *shape):
        self.count += 1
        shape = tuple(int(x) for x in shape)
        return families.generic(100 + self.count, shape, True, tag=8) / np.sqrt(2.0)

    def peek_next(self, shape):
        shape = tuple(int(x) for x in shape)
        return families.generic(100 + self.count + 1, shape, True, tag=8) / np.sqrt(2.0)


class State:
    def __init__(self, ext):
        from pyphysim.channels import multiuser as MU
        self.ext = ext
        self.obj = MU.MultiUserChannelMatrixExtInt() if ext else MU.MultiUserChannelMatrix()
        self.rng = Scripted()
        # reference model
        self.layout = None
        self.NtE = None
        self.raw = None
        self.P = None
        self.E = None
        self.nv = None
        self.W = None
        self.last_mut = "none"
        self.nmut = 0
        self.prev_PE = []       # earlier (P, E) values
        self.prev_layout = []   # earlier (layout, NtE)
        self.prev_raw = []      # earlier raw matrices
        self.error = None      # (event, exception) when an event itself raised
        self.rejected = None   # (what, raised?, object unchanged?) of the last invalid call
        self.terminal = False  # reference model lost (invalid call changed the object): not explored further
        self.raw_learnt = False  # randomize() did not go through the randn_c_RS seam


def apply_event(st, ev):
    """apply one event to the real object and to the reference model"""
    o = st.obj
    kind = ev[0]
    if kind in ("rand", "init") and st.layout is not None:
        st.prev_layout.append((st.layout, st.NtE))
        st.prev_raw.append(st.raw)
    if kind == "pl":
        st.prev_PE.append((st.P, st.E))
    if kind == "rand":
        Nr, Nt = LAYOUTS[ev[1]]
        shape_t = sum(Nt) + (sum(st.ext_nte(ev)) if st.ext else 0)
        expected = st.rng.peek_next((sum(Nr), shape_t))
        drawn_before = st.rng.count
        if st.ext:
            nte = st.ext_nte(ev)
            o.randomize(np.array(Nr), np.array(Nt), K, nte if len(nte) > 1 else int(nte[0]))
            st.NtE = nte
        else:
            o.randomize(np.array(Nr), np.array(Nt), K)
        st.layout, st.raw = (Nr, Nt), expected
        if st.rng.count == drawn_before:
            # the implementation drew the channel without calling multiuser.randn_c_RS (the property
            # does not say HOW the channel is drawn): the raw channel of the model is then what the
            # object reports as its global matrix, with the model's current path loss divided out;
            # every other view and every later event is still judged against it
            factor = model_big(st, raw=np.ones((sum(Nr), shape_t), dtype=complex))
            st.raw = np.asarray(o.big_H) / factor
            st.raw_learnt = True
    elif kind == "init":
        Nr, Nt = LAYOUTS[ev[2]]
        if st.ext:
            nte = st.ext_nte(ev)
            M = M_of(ev[1], (sum(Nr), sum(Nt) + sum(nte)))
            o.init_from_channel_matrix(M.copy(), np.array(Nr), np.array(Nt), K,
                                       nte if len(nte) > 1 else int(nte[0]))
            st.NtE = nte
        else:
            M = M_of(ev[1], (sum(Nr), sum(Nt)))
            o.init_from_channel_matrix(M.copy(), np.array(Nr), np.array(Nt), K)
        st.layout, st.raw = (Nr, Nt), M
    elif kind == "pl":
        P = P_of(ev[1])
        if st.ext:
            E = None if P is None else E_of(ev[1], len(st.NtE))
            if P is None:
                o.set_pathloss(None)
            else:
                o.set_pathloss(P.copy(), E.copy())
            st.P, st.E = P, E
        else:
            o.set_pathloss(None if P is None else P.copy())
            st.P = P
    elif kind == "nv":
        o.noise_var = ev[1]
        st.nv = ev[1]
    elif kind == "pf":
        W = W_of(ev[1], st.layout[0])
        o.set_post_filter(None if W is None else [w.copy() for w in W])
        st.W = W
    elif kind == "bad":
        # a call the library must REJECT; the object has to stay exactly as it was
        before = bfs.digest(bfs.state_of(o), 12)
        Nr, Nt = st.layout
        other = "B" if (Nr, Nt) == LAYOUTS["A"] else "A"
        oNr, oNt = LAYOUTS[other]
        extra = (sum(st.NtE) if st.ext else 0)
        raised = None
        try:
            if ev[1] == "init_wrong_shape":
                M = M_of("M2", (sum(oNr) + 1, sum(oNt) + extra))
                args = (M, np.array(oNr), np.array(oNt), K)
            elif ev[1] == "init_K_mismatch":
                M = M_of("M2", (sum(oNr), sum(oNt) + extra))
                args = (M, np.array(oNr), np.array(oNt), K + 1)
            if ev[1].startswith("init"):
                if st.ext:
                    o.init_from_channel_matrix(*args, st.NtE if len(st.NtE) > 1 else int(st.NtE[0]))
                else:
                    o.init_from_channel_matrix(*args)
            elif ev[1] == "negative_noise_var":
                o.noise_var = -0.5
        except Exception as e:  # noqa  (how an invalid call is refused is free: INVALID_CALL_POLICY)
            raised = e
        st.rejected = (ev[1], raised is not None, bfs.digest(bfs.state_of(o), 12) == before)
    elif kind == "rd":
        read_view(st, ev[1])
    elif kind == "tx":
        transmit(st, ev[1])
    else:
        raise ValueError(ev)
    if kind in ("rand", "init", "pl", "nv", "pf"):
        st.last_mut = kind
        st.nmut += 1


def _ext_nte(self, ev):
    return list(ev[-1])


State.ext_nte = _ext_nte


def read_view(st, name):
    o = st.obj
    Kt = K + (len(st.NtE) if st.ext else 0)
    if name == "H":
        return o.H
    if name == "big_H":
        return o.big_H
    if name == "Hkl":
        return [[o.get_Hkl(k, l) for l in range(Kt)] for k in range(K)]
    if name == "Hk":
        return [o.get_Hk(k) for k in range(K)]
    if name == "big_H_no_ext_int":
        return o.big_H_no_ext_int
    if name == "H_no_ext_int":
        return o.H_no_ext_int
    if name == "Hk_without_ext_int":
        return [o.get_Hk_without_ext_int(k) for k in range(K)]
    raise ValueError(name)


def transmit(st, how):
    o = st.obj
    Nr, Nt = st.layout
    D = data_for(Nt)
    if st.ext:
        DE = data_for(st.NtE, tag=10)
        if how == "cd":
            return o.corrupt_data(np.array(D + [None], dtype=object)[:-1], np.array(DE + [None], dtype=object)[:-1])
        return o.corrupt_concatenated_data(np.vstack(D + DE))
    if how == "cd":
        return o.corrupt_data(np.array(D + [None], dtype=object)[:-1])
    return o.corrupt_concatenated_data(np.vstack(D))


# ----------------------------------------------------------------------
# reference model
# ----------------------------------------------------------------------
def model_big(st, PE=None, layout=None, raw=None):
    """the global matrix of the reference model; the keyword overrides build the
    'explanations' used to classify a wrong view (stale path loss, path loss
    expanded for an earlier antenna layout, stale raw matrix)"""
    (Nr, Nt), NtE = layout if layout is not None else (st.layout, st.NtE)
    cols = list(Nt) + (list(NtE) if st.ext else [])
    raw = st.raw if raw is None else raw
    P, E = PE if PE is not None else (st.P, st.E)
    if P is None:
        return raw.copy()
    Pfull = P if not st.ext else np.hstack([P, E])
    if raw.shape != (sum(Nr), sum(cols)) or Pfull.shape[1] != len(cols):
        return None
    out = raw.copy()
    r0 = 0
    for k in range(K):
        c0 = 0
        for l, n in enumerate(cols):
            out[r0:r0 + Nr[k], c0:c0 + n] = raw[r0:r0 + Nr[k], c0:c0 + n] * np.sqrt(Pfull[k, l])
            c0 += n
        r0 += Nr[k]
    return out


def explain_big(st, val):
    """why is this global matrix wrong?"""
    val = np.asarray(val)
    for PE in reversed(st.prev_PE):
        m = model_big(st, PE=PE)
        if m is not None and ok(val, m):
            return "equals_matrix_for_an_earlier_pathloss"
    for lay in reversed(st.prev_layout):
        m = model_big(st, layout=lay)
        if m is not None and ok(val, m):
            return "pathloss_expanded_for_an_earlier_antenna_layout"
    for raw in reversed(st.prev_raw):
        for PE in [None] + list(reversed(st.prev_PE)):
            m = model_big(st, raw=raw, PE=PE)
            if m is not None and ok(val, m):
                return "equals_matrix_for_an_earlier_channel"
    return "unexplained"


def block(big, st, k, l):
    Nr, Nt = st.layout
    cols = list(Nt) + (list(st.NtE) if st.ext else [])
    r0 = sum(Nr[:k])
    c0 = sum(cols[:l])
    return big[r0:r0 + Nr[k], c0:c0 + cols[l]]


BIG_FAMILY = ("big_H", "Hk", "big_H_no_ext_int", "Hk_without_ext_int", "corrupt_data",
              "corrupt_concatenated_data")


def numerics_short(x):
    if isinstance(x, np.ndarray):
        return "ndarray%r %s" % (x.shape, np.array2string(x.ravel()[:4], precision=4))
    return x


def ok(a, b):
    a = np.asarray(a)
    b = np.asarray(b)
    return a.shape == b.shape and numerics.close(a, b, 1.0, TOL_C)


def check_views(chk, st, hist, cls):
    """every view of the object against the model; returns nothing (reports through chk)"""
    big = model_big(st)
    Nr, Nt = st.layout
    Kt = K + (len(st.NtE) if st.ext else 0)
    ntu = sum(Nt)
    case = {"class": cls, "K": K, "history": [list(e) for e in hist]}
    big_why = [None]      # explanation of a wrong big_H; its dependants inherit it

    def report(view, what, observed, expected):
        fam = view
        if big_why[0] and what == "mismatch" and view in BIG_FAMILY:
            fam, what = "big_H_family", big_why[0]
        chk.fail((cls, fam, what), case, observed="view %s: %s" % (view, numerics_short(observed)),
                 expected=numerics_short(expected), msg="history %r" % (list(hist),))

    def guarded(view, fn):
        try:
            return True, fn()
        except Exception as e:  # noqa
            report(view, "exception:" + type(e).__name__, "%s: %s" % (type(e).__name__, e), "a value")
            return False, None

    chk.count("eval_states")
    views = ["big_H", "H", "Hkl", "Hk"] + (["big_H_no_ext_int", "H_no_ext_int", "Hk_without_ext_int"] if st.ext else [])
    for v in views:
        chk.count("eval_views")
        good, val = guarded(v, lambda v=v: read_view(st, v))
        if not good:
            continue
        if v == "H":
            bad = None
            if np.shape(val) != (K, Kt):
                bad = ("shape", np.shape(val), (K, Kt))
            else:
                for k in range(K):
                    for l in range(Kt):
                        if not ok(val[k, l], block(big, st, k, l)):
                            bad = ("block(%d,%d)" % (k, l), val[k, l], block(big, st, k, l))
            if bad:
                report(v, "mismatch", "%s: %r" % (bad[0], bad[1]), bad[2])
        elif v == "big_H":
            if not ok(val, big):
                big_why[0] = explain_big(st, val)
                report(v, "mismatch", val, big)
        elif v == "Hkl":
            for k in range(K):
                for l in range(Kt):
                    if not ok(val[k][l], block(big, st, k, l)):
                        report(v, "mismatch", val[k][l], block(big, st, k, l))
        elif v == "Hk":
            for k in range(K):
                r0 = sum(Nr[:k])
                if not ok(val[k], big[r0:r0 + Nr[k], :]):
                    report(v, "mismatch", val[k], big[r0:r0 + Nr[k], :])
        elif v == "big_H_no_ext_int":
            if not ok(val, big[:, :ntu]):
                report(v, "mismatch", val, big[:, :ntu])
        elif v == "H_no_ext_int":
            if np.shape(val) != (K, K):
                report(v, "mismatch", "shape %r" % (np.shape(val),), (K, K))
            else:
                for k in range(K):
                    for l in range(K):
                        if not ok(val[k, l], block(big, st, k, l)):
                            report(v, "mismatch", val[k, l], block(big, st, k, l))
        elif v == "Hk_without_ext_int":
            for k in range(K):
                r0 = sum(Nr[:k])
                if not ok(val[k], big[r0:r0 + Nr[k], :ntu]):
                    report(v, "mismatch", val[k], big[r0:r0 + Nr[k], :ntu])
    # transmissions: both entry points, noise exactly the reported one
    for how in ("cd", "ccd"):
        chk.count("eval_views")
        D = data_for(Nt) + (data_for(st.NtE, tag=10) if st.ext else [])
        x = np.vstack(D)
        exp_noise = None
        if st.nv is not None:
            exp_noise = st.rng.peek_next((sum(Nr), x.shape[1])) * np.sqrt(st.nv)
        good, out = guarded("corrupt_" + how, lambda how=how: transmit(st, how))
        if not good:
            continue
        ln = st.obj.last_noise
        if (ln is None) != (st.nv is None):
            report("last_noise", "none-ness", "last_noise is None: %r" % (ln is None,),
                   "None iff noise_var is None (noise_var=%r)" % (st.nv,))
            continue
        y = big @ x
        if ln is not None:
            # the statement speaks of "exactly the noise reported as last noise": which generator call
            # produced it is free.  Through the seam we know the draw; otherwise only its shape is judged
            if np.shape(ln) != np.shape(exp_noise):
                report("last_noise", "shape", "shape %r" % (np.shape(ln),), np.shape(exp_noise))
                continue
            chk.outcome("noise_source", "scripted_draw_times_sqrt_noise_var" if ok(ln, exp_noise)
                        else "other_generator_call")
            y = y + ln
        if st.W is not None:
            from scipy.linalg import block_diag
            y = block_diag(*st.W).conj().T @ y
        if how == "ccd":
            if not ok(out, y):
                report("corrupt_concatenated_data", "mismatch", out, y)
        else:
            if np.shape(out) != (K,):
                report("corrupt_data", "mismatch", "shape %r" % (np.shape(out),), (K,))
            else:
                r0 = 0
                for k in range(K):
                    if not ok(out[k], y[r0:r0 + Nr[k], :]):
                        report("corrupt_data", "mismatch", out[k], y[r0:r0 + Nr[k], :])
                    r0 += Nr[k]


def check_mutual_coherence(chk, st, case, cls, what):
    """After an invalid call that changed the object the reference model is lost; the statement's core
    still applies to what the object reports: the block of every (receiver, transmitter) pair equals the
    corresponding sub-block of the global matrix, get_Hk are its row blocks, and data is received as
    W^H (big_H x + last_noise) split by the reported antenna counts."""
    o = st.obj

    def bad(rel, obs, exp):
        chk.fail((cls, "after_invalid_call", what, rel), case, observed=numerics_short(obs),
                 expected=numerics_short(exp))

    Nr = [int(x) for x in o.Nr]
    big = np.asarray(o.big_H)
    H = o.H
    nrows, ncols = np.shape(H)
    cols = [int(H[0, l].shape[1]) for l in range(ncols)]
    if sum(Nr) != big.shape[0] or sum(cols) != big.shape[1] or nrows != len(Nr):
        bad("layout_vs_global_matrix", (Nr, cols, big.shape), "consistent shapes")
        return
    r0 = 0
    for k in range(nrows):
        c0 = 0
        for l in range(ncols):
            blk = big[r0:r0 + Nr[k], c0:c0 + cols[l]]
            if not ok(H[k, l], blk):
                bad("H_block_vs_big_H", H[k, l], blk)
            if not ok(o.get_Hkl(k, l), blk):
                bad("get_Hkl_vs_big_H", o.get_Hkl(k, l), blk)
            c0 += cols[l]
        if not ok(o.get_Hk(k), big[r0:r0 + Nr[k], :]):
            bad("get_Hk_vs_big_H", o.get_Hk(k), big[r0:r0 + Nr[k], :])
        r0 += Nr[k]
    x = families.generic(77, (big.shape[1], 2), True, tag=9)
    out = o.corrupt_concatenated_data(x.copy())
    y = big @ x
    if o.last_noise is not None:
        y = y + o.last_noise
    if (o.last_noise is None) != (o.noise_var is None):
        bad("last_noise_none-ness", o.last_noise is None, o.noise_var is None)
    if o.W is not None:
        from scipy.linalg import block_diag
        y = block_diag(*o.W).conj().T @ y
    if not ok(out, y):
        bad("corrupt_concatenated_data", out, y)


# ----------------------------------------------------------------------
def alphabet(ext, tier):
    ev = []
    ntes = [(1,), (1, 2)] if ext else [None]
    for lay in ("A", "B"):
        for nte in ntes:
            ev.append(("rand", lay) + ((nte,) if ext else ()))
            for m in (("M1", "M2", "M3") if tier == "thorough" else ("M1", "M3")):
                ev.append(("init", m, lay) + ((nte,) if ext else ()))
    muts = [("pl", "P1"), ("pl", "P3") if tier != "thorough" else ("pl", "P2"), ("pl", "P4"), ("pl", None),
            ("nv", None), ("nv", 0.0), ("nv", 0.1),
            ("pf", "W1"), ("pf", "W2"), ("pf", None)]
    reads = [("rd", "H"), ("rd", "big_H"), ("rd", "Hkl"), ("rd", "Hk")]
    if ext:
        reads += [("rd", "big_H_no_ext_int"), ("rd", "H_no_ext_int"), ("rd", "Hk_without_ext_int")]
    if ext:
        muts += [("pl", "P5")]
    if tier == "thorough":
        muts += [("pl", "P3"), ("nv", 1e-13)]
    tx = [("tx", "cd"), ("tx", "ccd"), ("bad", "init_wrong_shape"), ("bad", "init_K_mismatch"),
          ("bad", "negative_noise_var")]
    return ev, muts, reads, tx


def run_bfs(chk, ext, depth, inits, tier, k=2):
    from pyphysim.channels import multiuser as MU
    from vmc import seams
    set_K(k)
    cls = "ExtInt" if ext else "plain"
    initialisers, muts, reads, tx = alphabet(ext, tier)
    events = initialisers + muts + reads + tx

    def build(hist):
        st = State(ext)
        with seams.patched((MU, "randn_c_RS", st.rng)):
            for i, ev in enumerate(hist):
                try:
                    apply_event(st, ev)
                except Exception as e:  # noqa
                    st.error = (i, ev, e)
                    break
        return st

    def enabled(hist, st):
        if st.error is not None:
            return []
        if hist and hist[-1][0] == "bad" and st.rejected is not None and not st.rejected[2]:
            return []       # model lost; judged by mutual coherence only
        out = []
        for ev in events:
            if ext and ev[0] in ("rand", "init") and st.NtE is not None and tuple(ev[-1]) != tuple(st.NtE):
                continue        # same number of external sources throughout (path-loss shapes must fit)
            out.append(ev)
        return out

    def invariant(hist, st):
        case = {"class": cls, "K": K, "history": [list(e) for e in hist]}
        if st.error is not None:
            i, ev, e = st.error
            chk.fail((cls, "event:" + ev[0] + (":None" if ev[0] == "pl" and ev[1] is None else "") +
                      (":" + str(ev[1]) if ev[0] in ("rd", "tx") else ""),
                      "exception:" + type(e).__name__), case,
                     observed="%s: %s" % (type(e).__name__, e), expected="event completes")
            return
        if hist and hist[-1][0] == "bad" and st.rejected is not None:
            # tools/INVALID_CALL_POLICY.md: the invalid call is free as a call (recorded as an outcome);
            # what the property demands afterwards is that the views the object REPORTS still agree
            what, raised, same = st.rejected
            chk.count("eval_invalid_calls")
            chk.outcome("invalid_call", (cls, what, "raised" if raised else "accepted",
                                         "object_unchanged" if same else "object_changed"))
            if not same:
                with seams.patched((MU, "randn_c_RS", st.rng)):
                    with chk.guard((cls, "after_invalid_call", what), case):
                        check_mutual_coherence(chk, st, case, cls, what)
                st.terminal = True
                return
        with seams.patched((MU, "randn_c_RS", st.rng)):
            with chk.guard((cls, "invariant"), case):
                check_views(chk, st, hist, cls)
        if st.nmut >= 2:
            chk.nontriv((cls, K, bfs.digest([list(e) for e in hist])))

    def canon(hist, st):
        if st.error is not None:
            return ("error", tuple(map(str, hist)))
        d = bfs.digest(bfs.state_of(st.obj), 10)
        chk.outcome("cache_pattern", (cls,) + tuple(sorted(k for k, v in bfs.state_of(st.obj).items() if v is None)))
        # non-vacuity is measured on the MODEL side (which combinations of path loss / noise / post
        # filter / earlier layouts and path losses the histories reached), not on how the
        # implementation happens to cache
        chk.outcome("model_pattern", (cls, st.P is None, st.nv is None, st.W is None, st.last_mut,
                                      len(st.prev_PE) > 0, len(st.prev_layout) > 0))
        model = (str(st.layout), st.NtE and tuple(st.NtE), bfs.digest(st.raw), str(st.P is None),
                 bfs.digest(st.P), bfs.digest(st.E), st.nv, bfs.digest(st.W), st.rng.count)
        return (cls, K, d, model)

    b = bfs.BFS(chk, build, enabled, invariant, canon, depth, label=cls)
    b.run(inits)
    return b


def init_hists(ext):
    if ext:
        return [(("init", "M1", "A", (1,)),), (("rand", "B", (1,)),), (("init", "M2", "A", (1, 2)),)]
    return [(("init", "M1", "A"),), (("rand", "B"),)]


def main(chk):
    depth = 4 if chk.tier == "thorough" else 3
    chk.assume("post filters are square per-user matrices (the statement itself splits by antenna count)")
    chk.assume("user count K (2 or 3) and the number of external sources stay fixed along a history; antenna "
               "layouts change (K=2: Nr=[1,2],Nt=[2,1] <-> Nr=[2,1],Nt=[1,2]; K=3: Nr=[1,2,1],Nt=[2,1,1] <-> "
               "Nr=[2,1,1],Nt=[1,1,2]); channel magnitudes O(1) and 1e-9, path loss O(1) and 1e-12..1e-15")
    chk.assume("float views compared with |d| <= 1e3*eps*scale")
    jobs = [(False, 2, h) for h in init_hists(False)] + [(True, 2, h) for h in init_hists(True)]
    if chk.tier == "thorough":
        jobs += [(False, 3, h) for h in init_hists(False)] + [(True, 3, h) for h in init_hists(True)]
    else:
        # quick: three users, shallower
        jobs += [(False, 3, init_hists(False)[0]), (True, 3, init_hists(True)[0])]

    def worker(i, n, c):
        for ext, k, h in shard(iter(jobs), i, n):
            run_bfs(c, ext, depth if (k == 2 or c.tier == "thorough") else depth - 1, [h], c.tier, k)

    run_shards(chk, worker, nshards=min(len(jobs), 16))
    chk.extra["depth"] = depth
    chk.sample({"class": "ExtInt", "history": [["init", "M1", "A", [1]], ["rd", "big_H"], ["pl", "P2"]]})
    chk.require_outcomes("model_pattern", 24)


def replay(case, chk):
    from pyphysim.channels import multiuser as MU
    from vmc import seams
    ext = case["class"] == "ExtInt"
    set_K(int(case.get("K", 2)))
    hist = tuple(tuple(tuple(x) if isinstance(x, list) else x for x in e) for e in case["history"])
    st = State(ext)
    with seams.patched((MU, "randn_c_RS", st.rng)):
        for i, ev in enumerate(hist):
            try:
                apply_event(st, ev)
            except Exception as e:  # noqa
                chk.fail((case["class"], "event:" + ev[0] + (":None" if ev[0] == "pl" and ev[1] is None else "") +
                      (":" + str(ev[1]) if ev[0] in ("rd", "tx") else ""),
                          "exception:" + type(e).__name__), case,
                         observed="%s: %s" % (type(e).__name__, e), expected="event completes")
                return
        with chk.guard((case["class"], "invariant"), case):
            check_views(chk, st, hist, case["class"])
