#!/venv/bin/python
"""MANIFEST.setup_cmd: nothing has to be built (pure Python on the interpreter
already installed).  Verifies offline prerequisites and warms nothing persistent."""
import os
import sys
sys.path.insert(0, os.path.dirname(os.path.dirname(os.path.abspath(__file__))))
from vmc import common  # noqa
common.import_pyphysim()
import numpy, scipy, jsonschema  # noqa
for d in ("evidence", "replays"):
    os.makedirs(os.path.join(common.VERIF_DIR, d), exist_ok=True)
print("setup ok: python %s numpy %s repo %s" % (sys.version.split()[0], numpy.__version__, common.REPO))
