"""C02 - OFDM round trip and exact one-tap equalisation when the CP covers the channel.

E1 (exhaustive product enumeration on the real implementation):

Part P (parameters): every triple (fft, cp, used) of a small integer grid that
  also contains all the *invalid* neighbours (negative / too large cp, odd /
  too small / too large used, used=None, fft in {-1,0,1}) through the
  constructor and through `set_parameters`: valid <=> accepted with the
  attributes stored; invalid <=> ValueError.
Part R (round trip): every valid (fft, cp, used) of the tier x the six input
  lengths {1, used-1, used, used+1, 2 used, 2 used+3}:
  (1) demodulate(modulate(x)) == x ++ zeros, length ceil(n/used)*used;
  (2) len(tx) == nsym*(fft+cp); (3) every prefix equal, sample by sample, to
  the tail of its symbol; (4) used < fft: an O(N^2) reference DFT (matrix of
  exp(-2 pi j (k m mod N)/N), no FFT) of every symbol body has no energy at
  bin 0 and at the guard bins.
Part C (channel): every valid (fft, cp, used) x tap-delay sets inside {0..cp}
  (1..3 taps) x tap powers from {0,-3,-10} dB x 3 seeded time-invariant
  realisations (real TdlChannel driven by JakesSampleGenerator(Fd=0, Ts=1,
  RS=RandomState(recorded seed))) x input lengths {used+1, 2 used+3} (thorough,
  full alphabet: also 1):
  (5) equalize_data(demodulate(rx[:len(tx)]), reported impulse response)
      == x ++ zeros with tolerance ~ max|H|/min|H| (H = frequency response the
      check derives from the *reported* taps by a direct sum, aliasing
      included); realisations with min|H_k| < 1e-3 on a used bin are excluded
      and counted.
"""
import itertools
import math

import numpy as np

from vmc import common, numerics
from vmc.parallel import run_shards, shard
from vmc.report import Check

PID = "C02"
LEVEL = "exploration"
ENGINE = "E1 exhaustive product enumerator"
RULE = ("P: every (fft, cp, used) of the integer grid fft in -1..Fp, cp in -2..fft+2, used in "
        "{None} U -2..fft+2, via constructor and via set_parameters (valid <=> accepted, invalid "
        "<=> ValueError). R: every valid (fft, cp in 0..fft, even used in 2..fft) of the tier x "
        "input lengths {1, used-1, used, used+1, 2used, 2used+3}, symbols x_k=(1+k/8)e^{j(0.7k+c)}: "
        "round trip, output length, prefix==tail sample by sample, O(N^2)-DFT energy on DC/guard bins. "
        "C: the same configurations x tap-delay sets of 1..3 taps inside {0..cp} (ALL such subsets for "
        "fft <= F_full, otherwise all subsets of the boundary delays {0,1,cp//2,cp-1,cp}) x tap powers "
        "from {0,-3,-10} dB (all tuples up to a common shift for fft <= F_full, 1/4/4 tuples otherwise) "
        "x 3 seeded static realisations x input lengths {used+1, 2used+3} (thorough, fft <= F_full: also 1): "
        "equalised demodulated data == input ++ zeros. "
        "Non-trivial: R with n > 1; C with a tap at non-zero delay. Distinct = distinct "
        "(fft, cp, used, n) resp. (fft, cp, used, delay set)")

# ---- tolerance constants (DESIGN 2.4: |lhs-rhs| <= c * 2^-52 * kappa * scale) ----------
C_RT = 1e4        # round trip, kappa = 1
C_DFT = 1e2       # reference-DFT energy test, kappa = N (O(N^2) summation)
C_EQ = 1e4        # equalised symbols, kappa = max(1, max|H|) / min|H| on the used bins
NULL_THR = 1e-3   # realisations with min|H_k| below this on a used bin are excluded (counted)
POWERS_DB = (0.0, -3.0, -10.0)
NREAL = 3
JAKES_L = 8
PREPASS_MAX_FFT = 4   # these configurations run serially in the parent first -> smallest witnesses


# ----------------------------------------------------------------------
# alphabets
# ----------------------------------------------------------------------
def tier_params(tier):
    if tier == "thorough":
        return dict(F_all=24, F_full=10, Fp=26,
                    big=[(fft, cp, used) for fft in (32, 64, 128) for cp in range(fft + 1)
                         for used in sorted({2, fft // 2, fft - 2, fft})] + [(64, 16, 52)],
                    ch_lengths_full="three", ch_lengths_boundary="two")
    return dict(F_all=8, F_full=8, Fp=10,
                big=[(16, cp, used) for cp in range(17) for used in range(2, 17, 2)] + [(64, 16, 52)],
                ch_lengths_full="two", ch_lengths_boundary="two")


def configs(tier):
    """valid (fft, cp, used), simplest first"""
    p = tier_params(tier)
    out = []
    for fft in range(2, p["F_all"] + 1):
        for cp in range(fft + 1):
            for used in range(2, fft + 1, 2):
                out.append((fft, cp, used))
    seen = set(out)
    for c in p["big"]:
        if c not in seen:
            seen.add(c)
            out.append(c)
    return out


def lengths(used):
    return sorted({1, used - 1, used, used + 1, 2 * used, 2 * used + 3} - {0, -1})


def channel_lengths(used, which):
    if which == "all":
        return lengths(used)
    if which == "three":
        return [1, used + 1, 2 * used + 3]
    return [used + 1, 2 * used + 3]     # 2 symbols with padding; >= 3 symbols with padding


def _canonical_power_tuples(k):
    """all tuples of POWERS_DB^k that are not a common shift of another tuple of the set
    (the profile normalises the total power, so a common shift is the same channel)"""
    allt = list(itertools.product(POWERS_DB, repeat=k))
    sett = set(allt)
    out = []
    for t in allt:
        m = max(t)
        sh = tuple(v - m for v in t)
        if m != 0.0 and sh in sett:
            continue
        out.append(t)
    return out


_POW_FULL = {k: _canonical_power_tuples(k) for k in (1, 2, 3)}          # 1 / 7 / 25 tuples
_POW_BOUNDARY = {1: [(0.0,)],
                 2: [(0.0, 0.0), (0.0, -10.0), (-10.0, 0.0), (-3.0, -10.0)],
                 3: [(0.0, 0.0, 0.0), (0.0, -3.0, -10.0), (-10.0, -3.0, 0.0), (-10.0, 0.0, -3.0)]}


def delay_sets(cp, full):
    base = list(range(cp + 1)) if full else sorted(
        d for d in {0, 1, cp // 2, cp - 1, cp} if 0 <= d <= cp)
    for k in (1, 2, 3):
        for c in itertools.combinations(base, k):
            yield c


def units(tier):
    """deterministic list of work units, simplest first"""
    p = tier_params(tier)
    for fft in range(-1, p["Fp"] + 1):
        yield ("par", fft)
    for cfg in configs(tier):
        yield ("rt", cfg)
    for cfg in configs(tier):
        full = cfg[0] <= p["F_full"]
        for ds in delay_sets(cfg[1], full):
            yield ("ch", cfg, ds, full)


def rs_seed(seed, r):
    return 1000 * int(seed) + r


# ----------------------------------------------------------------------
# reference model
# ----------------------------------------------------------------------
def syms(n, off):
    k = np.arange(n, dtype=float)
    return (1.0 + k / 8.0) * np.exp(1j * (0.7 * k + 2.0 * math.pi * off))


_W = {}


def dft_matrix(N):
    W = _W.get(N)
    if W is None:
        k = np.arange(N, dtype=np.int64)
        W = np.exp(-2j * np.pi * ((k[:, None] * k[None, :]) % N) / N)
        _W[N] = W
    return W


def ref_dft_rows(rows):
    """X[s, k] = sum_m rows[s, m] exp(-2 pi j k m / N): plain O(N^2) sums"""
    return rows @ dft_matrix(rows.shape[1]).T


def ref_used_bins(N, used):
    """the band is centred, DC skipped (all bins when used == N)"""
    if used == N:
        return list(range(N))
    h = used // 2
    return list(range(1, h + 1)) + list(range(N - h, N))


def ref_valid(fft, cp, used):
    u = fft if used is None else used
    return fft >= 2 and 0 <= cp <= fft and u % 2 == 0 and 2 <= u <= fft


def true_freq_response(idx, taps, N, bins, drop_beyond=None):
    """H_k = sum_i h_i exp(-2 pi j k d_i / N) of the static impulse response;
    drop_beyond=N mimics np.fft.fft(h, N) cropping the taps with d_i >= N"""
    H = np.zeros(len(bins), dtype=complex)
    kb = np.asarray(bins, dtype=np.int64)
    for d, h in zip(idx, taps):
        if drop_beyond is not None and d >= drop_beyond:
            continue
        H += h * np.exp(-2j * np.pi * ((kb * int(d)) % N) / N)
    return H


# ----------------------------------------------------------------------
# Part P
# ----------------------------------------------------------------------
def check_params(chk, case):
    from pyphysim.modulators.ofdm import OFDM
    fft, cp, used, via = case["fft"], case["cp"], case["used"], case["via"]
    with chk.guard(("ofdm_params",), case):
        chk.count("eval_params")
        valid = ref_valid(fft, cp, used)
        exc = None
        obj = None
        try:
            if via == "ctor":
                obj = OFDM(fft, cp, used)
            else:
                obj = OFDM(8, 2, 4)
                obj.set_parameters(fft, cp, used)
        except Exception as e:  # noqa
            exc = e
        chk.outcome("params", (valid, type(exc).__name__ if exc is not None else "accepted"))
        if valid:
            chk.nontriv(("par", fft, cp, used))
            if exc is not None:
                chk.fail(("ofdm_params", "valid_rejected", via), case,
                         observed="%s: %s" % (type(exc).__name__, exc), expected="accepted")
                return
            got = (obj.fft_size, obj.cp_size, obj.num_used_subcarriers)
            want = (fft, cp, fft if used is None else used)
            if got != want:
                chk.fail(("ofdm_params", "attributes_not_stored", via), case, observed=got, expected=want)
        else:
            if exc is None:
                why = ("cp" if not (0 <= cp <= fft) else "used")
                chk.fail(("ofdm_params", "invalid_accepted", why, via), case,
                         observed="accepted", expected="ValueError")
            elif not isinstance(exc, ValueError):
                chk.fail(("ofdm_params", "invalid_wrong_exception", type(exc).__name__, via), case,
                         observed="%s: %s" % (type(exc).__name__, exc), expected="ValueError")


def run_par_unit(chk, fft):
    for cp in range(-2, fft + 3):
        for used in [None] + list(range(-2, fft + 3)):
            for via in ("ctor", "set_parameters"):
                check_params(chk, {"kind": "params", "fft": fft, "cp": cp, "used": used, "via": via})


# ----------------------------------------------------------------------
# Part R
# ----------------------------------------------------------------------
def check_roundtrip(chk, case):
    from pyphysim.modulators.ofdm import OFDM
    fft, cp, used, n, off = case["fft"], case["cp"], case["used"], case["n"], case["phase_offset"]
    with chk.guard(("ofdm_roundtrip",), case):
        chk.count("eval_roundtrip")
        x = syms(n, off)
        x0 = x.copy()
        nsym = -(-n // used)
        pad = nsym * used - n
        xpad = np.concatenate([x0, np.zeros(pad, dtype=complex)])
        # enumeration-derived non-vacuity keys (recorded before the library is called)
        if n > 1:
            chk.nontriv(("rt", fft, cp, used, n))
        chk.outcome("nsym", nsym)
        if pad:
            chk.outcome("padding_configs", (fft, cp, used, n))
        if cp in (0, fft):
            chk.outcome("cp_edge_configs", (fft, cp))
        if used < fft:
            chk.outcome("guard_bins", fft - 1 - used)
        o = OFDM(fft, cp, used)
        tx = np.asarray(o.modulate(x))
        if x.shape != x0.shape or not np.array_equal(x, x0):
            chk.fail(("modulate", "mutates_input"), case, observed=x, expected=x0)
        # (2) length
        if tx.shape != (nsym * (fft + cp),):
            chk.fail(("modulate", "output_length"), case, observed=tx.shape,
                     expected=(nsym * (fft + cp),))
            return
        if not np.all(np.isfinite(tx)):
            chk.fail(("modulate", "non_finite_output"), case, observed=tx[:8], expected="finite")
            return
        T = tx.reshape(nsym, fft + cp)
        # (3) prefix is an exact copy of the tail
        if cp:
            chk.count("n_prefix_samples", nsym * cp)
            if not np.array_equal(T[:, :cp], T[:, fft:fft + cp]):
                s = int(np.nonzero(np.any(T[:, :cp] != T[:, fft:fft + cp], axis=1))[0][0])
                chk.fail(("modulate", "prefix_not_copy_of_symbol_tail"), case,
                         observed=T[s, :cp], expected=T[s, fft:fft + cp], msg="OFDM symbol %d" % s)
        # (4) no energy on DC / guard bins
        if used < fft:
            X = ref_dft_rows(np.ascontiguousarray(T[:, cp:]))
            ub = set(ref_used_bins(fft, used))
            guard = [k for k in range(1, fft) if k not in ub]
            sc = numerics.scale(X)
            chk.count("n_unused_bins", nsym * (1 + len(guard)))
            if not numerics.close(X[:, 0], np.zeros(nsym), kappa=fft, c=C_DFT, scale_=sc):
                chk.fail(("modulate", "energy_on_unused_subcarrier", "DC"), case,
                         observed=float(np.max(np.abs(X[:, 0]))), expected="0 (scale %g)" % sc)
            if guard and not numerics.close(X[:, guard], np.zeros((nsym, len(guard))),
                                            kappa=fft, c=C_DFT, scale_=sc):
                kbad = guard[int(np.argmax(np.max(np.abs(X[:, guard]), axis=0)))]
                chk.fail(("modulate", "energy_on_unused_subcarrier", "guard"), case,
                         observed="bin %d: %g" % (kbad, float(np.max(np.abs(X[:, kbad])))),
                         expected="0 (scale %g)" % sc)
        # (1) round trip
        d = np.asarray(o.demodulate(tx.copy()))
        if d.shape != xpad.shape:
            chk.fail(("demodulate", "output_length"), case, observed=d.shape, expected=xpad.shape)
            return
        if not numerics.close(d, xpad, kappa=1.0, c=C_RT):
            bad = np.abs(d - xpad)
            bad[~np.isfinite(bad)] = np.inf
            i = int(np.argmax(bad))
            chk.fail(("demodulate", "roundtrip_mismatch", "data" if i < n else "zero_padding"), case,
                     observed="position %d: %r" % (i, complex(d[i])), expected=complex(xpad[i]))


def run_rt_unit(chk, cfg, off):
    fft, cp, used = cfg
    for n in lengths(used):
        check_roundtrip(chk, {"kind": "roundtrip", "fft": fft, "cp": cp, "used": used, "n": n,
                              "phase_offset": off})


# ----------------------------------------------------------------------
# Part C
# ----------------------------------------------------------------------
def check_channel(chk, case):
    from pyphysim.channels.fading import TdlChannel
    from pyphysim.channels.fading_generators import JakesSampleGenerator
    from pyphysim.modulators.ofdm import OFDM, OfdmOneTapEqualizer
    fft, cp, used, n, off = case["fft"], case["cp"], case["used"], case["n"], case["phase_offset"]
    delays, powers, seed = list(case["delays"]), list(case["powers_dB"]), int(case["rs_seed"])
    with chk.guard(("ofdm_tdl_equalize",), case):
        chk.count("eval_channel")
        x = syms(n, off)
        nsym = -(-n // used)
        xpad = np.concatenate([x, np.zeros(nsym * used - n, dtype=complex)])
        if len(delays) > 1 or delays[0] > 0:
            chk.nontriv(("ch", fft, cp, used, tuple(delays)))
        chk.outcome("ntaps", len(delays))
        if max(delays) == cp:
            chk.outcome("memory_eq_cp", (fft, cp, used))
        if cp in (0, fft):
            chk.outcome("cp_edge_channel_configs", (fft, cp))
        o = OFDM(fft, cp, used)
        tx = np.asarray(o.modulate(x.copy()))
        jakes = JakesSampleGenerator(Fd=0.0, Ts=1.0, L=JAKES_L, RS=np.random.RandomState(seed))
        ch = TdlChannel(jakes, tap_powers_dB=np.array(powers, dtype=float),
                        tap_delays=np.array(delays, dtype=float))
        rx = np.asarray(ch.corrupt_data(tx.copy()))
        ir = ch.get_last_impulse_response()
        idx = np.asarray(ir.tap_indexes_sparse).astype(np.int64).ravel()
        tv = np.asarray(ir.tap_values_sparse)
        # premises the harness configured: static channel, memory <= cp
        if idx.tolist() != [int(d) for d in delays] or tv.shape != (len(delays), tx.size):
            chk.fail(("premise", "reported_taps_differ_from_configured_profile"), case,
                     observed=(idx.tolist(), tv.shape), expected=(delays, (len(delays), tx.size)))
            return
        if not np.all(tv == tv[:, :1]) or not np.all(np.isfinite(tv)):
            chk.fail(("premise", "channel_not_static_with_Fd=0"), case, observed=tv[:, :3],
                     expected="constant in time")
            return
        mem = int(idx.max())
        taps = tv[:, 0]
        ub = ref_used_bins(fft, used)
        H = true_freq_response(idx, taps, fft, ub)
        hmin, hmax = float(np.min(np.abs(H))), float(np.max(np.abs(H)))
        if hmin < NULL_THR:
            chk.count("excluded_spectral_null")
            chk.outcome("equalize_result", "excluded_spectral_null")
            return
        if rx.ndim != 1 or rx.size < tx.size:
            chk.fail(("tdl_channel", "output_shorter_than_input"), case, observed=rx.shape,
                     expected=">= %d samples" % tx.size)
            return
        d = np.asarray(o.demodulate(np.array(rx[:tx.size])))
        eq = np.asarray(OfdmOneTapEqualizer(o).equalize_data(d, ir))
        chk.count("n_equalized_symbols", int(xpad.size))
        if eq.shape != xpad.shape:
            chk.fail(("equalize", "output_shape"), case, observed=eq.shape, expected=xpad.shape)
            return
        kappa = max(1.0, hmax) / hmin
        if numerics.close(eq, xpad, kappa=kappa, c=C_EQ):
            chk.outcome("equalize_result", "recovered")
            return
        chk.outcome("equalize_result", "not_recovered")
        # diagnose WHAT is wrong (for the signature): the library's frequency response
        # against the direct sums with / without the taps at delay >= fft
        diag = "freq_response_correct"
        try:
            Hlib = np.asarray(ir.get_freq_response(fft))[:, 0]
            allb = list(range(fft))
            Ht = true_freq_response(idx, taps, fft, allb)
            Hc = true_freq_response(idx, taps, fft, allb, drop_beyond=fft)
            tol = 1e-9 * max(1.0, hmax)
            if Hlib.shape == Ht.shape and np.max(np.abs(Hlib - Ht)) <= tol:
                diag = "freq_response_correct"
            elif Hlib.shape == Hc.shape and np.max(np.abs(Hlib - Hc)) <= tol:
                diag = "get_freq_response_drops_taps_at_delay>=fft"
            else:
                diag = "freq_response_wrong"
        except Exception as e:  # noqa
            diag = "get_freq_response_raises_" + type(e).__name__
        cond = "memory=fft=cp" if mem == fft else "memory<fft"
        bad = np.abs(eq - xpad)
        bad[~np.isfinite(bad)] = np.inf
        i = int(np.argmax(bad))
        chk.fail(("equalize", "symbols_not_recovered", diag, cond), case,
                 observed="position %d: %r (|err| %g, min|H| %.3g)" % (i, complex(eq[i]), float(bad[i]), hmin),
                 expected=complex(xpad[i]),
                 msg="channel memory %d, cp %d, fft %d; reported taps at delays %s" % (mem, cp, fft, idx.tolist()))


def run_ch_unit(chk, cfg, ds, full, off, seed, which_lengths):
    fft, cp, used = cfg
    pw = (_POW_FULL if full else _POW_BOUNDARY)[len(ds)]
    for p in pw:
        for r in range(NREAL):
            for n in channel_lengths(used, which_lengths):
                check_channel(chk, {"kind": "channel", "fft": fft, "cp": cp, "used": used, "n": n,
                                    "delays": list(ds), "powers_dB": list(p),
                                    "rs_seed": rs_seed(seed, r), "phase_offset": off})


# ----------------------------------------------------------------------
def run_unit(chk, u, off, p):
    if u[0] == "par":
        run_par_unit(chk, u[1])
    elif u[0] == "rt":
        run_rt_unit(chk, u[1], off)
    else:
        _, cfg, ds, full = u
        run_ch_unit(chk, cfg, ds, full, off, chk.seed,
                    p["ch_lengths_full"] if full else p["ch_lengths_boundary"])


def _is_prepass(u):
    return u[0] != "par" and u[1][0] <= PREPASS_MAX_FFT


def main(chk: Check):
    tier = chk.tier
    p = tier_params(tier)
    off = common.seed_offset(2)
    chk.assume("time-invariant channels are real TdlChannel objects driven by JakesSampleGenerator(Fd=0, "
               "Ts=1, L=8, RS=RandomState(recorded seed)); the check verifies on every case that the "
               "reported taps are constant in time and sit at the configured delays")
    chk.assume("channel memory = largest reported tap delay; only delays inside 0..cp are enumerated")
    chk.assume("realisations whose true frequency response has min|H_k| < %g on a used bin are excluded "
               "(counted in excluded_spectral_null)" % NULL_THR)
    chk.assume("prefix == tail is compared with == per sample (0.0 and -0.0 count as equal)")
    chk.assume("for fft > F_full the tap-delay sets are all 1..3-subsets of the boundary delays "
               "{0,1,cp//2,cp-1,cp} and the power tuples a fixed list of 1/4/4, not the full product")
    chk.extra.update(tolerance_c_roundtrip=C_RT, tolerance_c_ref_dft_times_N=C_DFT,
                     tolerance_c_equalizer_times_cond=C_EQ, spectral_null_threshold=NULL_THR,
                     F_all=p["F_all"], F_full=p["F_full"], Fp=p["Fp"],
                     extra_configs=len(p["big"]), configs=len(configs(tier)),
                     realisations_per_profile=NREAL,
                     channel_lengths_full_alphabet=p["ch_lengths_full"],
                     channel_lengths_boundary_alphabet=p["ch_lengths_boundary"],
                     power_tuples_full=[len(_POW_FULL[k]) for k in (1, 2, 3)],
                     power_tuples_boundary=[len(_POW_BOUNDARY[k]) for k in (1, 2, 3)])
    # smallest configurations first, serially, so that the stored witness of every
    # signature is the smallest one
    for u in units(tier):
        if _is_prepass(u):
            run_unit(chk, u, off, p)

    def worker(i, n, c):
        for u in shard((v for v in units(tier) if not _is_prepass(v)), i, n):
            run_unit(c, u, off, p)

    run_shards(chk, worker, common.ncores())
    chk.sample({"kind": "roundtrip", "fft": 8, "cp": 3, "used": 6, "n": 7, "phase_offset": off})
    chk.sample({"kind": "channel", "fft": 8, "cp": 3, "used": 6, "n": 7, "delays": [0, 3],
                "powers_dB": [0.0, -3.0], "rs_seed": rs_seed(chk.seed, 0), "phase_offset": off})
    chk.sample({"kind": "params", "fft": 8, "cp": 9, "used": 4, "via": "ctor"})
    chk.require_outcomes("padding_configs", 20)
    chk.require_outcomes("cp_edge_configs", 6)
    chk.require_outcomes("cp_edge_channel_configs", 6)
    chk.require_outcomes("memory_eq_cp", 20)
    chk.require_outcomes("nsym", 3)
    chk.require_outcomes("ntaps", 3)
    chk.require_outcomes("guard_bins", 3)
    chk.require_outcomes("params", 2)
    if "recovered" not in chk.outcomes.get("equalize_result", ()) and not chk.violations:
        from vmc.report import Broken
        raise Broken("vacuous: no channel case reached the comparison of the equalised symbols")


def replay(case, chk: Check):
    kind = case.get("kind")
    if kind == "params":
        check_params(chk, case)
    elif kind == "roundtrip":
        check_roundtrip(chk, case)
    elif kind == "channel":
        check_channel(chk, case)
    else:
        raise ValueError("unknown case kind %r" % (kind,))
