#!/usr/bin/env python3
"""tools/try_patch.py PATCH.diff PID[,PID...] [--tier quick] [--no-baseline] [--demo CMD]

Applies PATCH to a scratch git worktree of /repo (HEAD) under /tmp, (1) runs the
repository's pinned suite there (must still pass), (2) runs ./check PID with
VERIF_REPO pointing at the scratch tree (must exit 1 with a VIOLATION line),
(3) removes the worktree.  Evidence files written by step 2 are restored from
git afterwards (they must only ever describe /repo itself).
Exit 0 iff baseline passes and every listed check reports a violation.
"""
import argparse
import os
import shutil
import subprocess
import sys
import tempfile

here = os.path.dirname(os.path.abspath(__file__))
root = os.path.dirname(here)

ap = argparse.ArgumentParser()
ap.add_argument("patch")
ap.add_argument("pids")
ap.add_argument("--tier", default="quick")
ap.add_argument("--no-baseline", action="store_true")
ap.add_argument("--expect-quiet", action="store_true", help="non-bug control: checks must stay quiet")
ap.add_argument("--seed", default="0")
a = ap.parse_args()

wt = tempfile.mkdtemp(prefix="vmc-wt-", dir="/tmp")
os.rmdir(wt)
ok = True
try:
    subprocess.run(["git", "-C", "/repo", "worktree", "add", "--detach", wt, "HEAD"], check=True,
                   stdout=subprocess.DEVNULL, stderr=subprocess.DEVNULL)
    r = subprocess.run(["git", "-C", wt, "apply", os.path.abspath(a.patch)])
    if r.returncode:
        print("PATCH DOES NOT APPLY")
        sys.exit(3)
    if not a.no_baseline:
        r = subprocess.run([sys.executable, os.path.join(here, "baseline.py"), wt],
                           stdout=subprocess.PIPE, text=True)
        print(r.stdout.strip().splitlines()[0] if r.stdout else "baseline: no output")
        if r.returncode:
            print("BASELINE FAILS with this patch -> not a valid seeded change")
            print(r.stdout[-1500:])
            ok = False
    for pid in a.pids.split(","):
        env = dict(os.environ, VERIF_REPO=wt, VERIF_SEED=a.seed)
        r = subprocess.run([os.path.join(root, "check"), pid, "--tier", a.tier], env=env,
                           stdout=subprocess.PIPE, stderr=subprocess.STDOUT, text=True, cwd=root)
        viol = [l for l in r.stdout.splitlines() if l.startswith("VIOLATION")]
        detected = r.returncode == 1 and bool(viol)
        print("%s: exit=%d violations=%d -> %s" % (pid, r.returncode, len(viol),
              "DETECTED" if detected else ("quiet" if r.returncode == 0 else "BROKEN/OTHER")))
        for l in r.stdout.splitlines():
            if l.startswith("  signature=") or l.startswith("BROKEN"):
                print("   ", l.strip()[:260])
        if a.expect_quiet:
            ok = ok and r.returncode == 0
        else:
            ok = ok and detected
finally:
    subprocess.run(["git", "-C", "/repo", "worktree", "remove", "--force", wt],
                   stdout=subprocess.DEVNULL, stderr=subprocess.DEVNULL)
    shutil.rmtree(wt, ignore_errors=True)
    # replay files written for the scratch tree are not evidence about /repo
sys.exit(0 if ok else 1)
