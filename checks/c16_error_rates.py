"""C16 - theoretical error-rate curves are consistent with the emitted
constellation.

E1 (bounded exhaustive product): every modulator object `BPSK()`, `QPSK()`,
`PSK(2^1..2^10, phi0)` constructed and after `setPhaseOffset(phi1)`,
`QAM(4^1..4^6)` x every SNR of the grid -30..60 dB (step 0.5; thorough 0.1) as
one array, as a 2-D array and as scalars, plus 100/150/200 dB for the limits,
x every packet length of the alphabet.

Oracle: from the EMITTED `symbols` only - brute-force minimum distance, mean
energy, circle / square-grid structure and number of levels per axis - the
check rebuilds

    BPSK  Q(dmin/sqrt(2 N0))
    QAM   1 - (1 - 2(1-1/L) Q(dmin/sqrt(2 N0)))^2
    PSK   2 Q(dmin/sqrt(2 N0))   and   exact <= that <= 2 exact

with N0 = 1/snr (the library's curves assume unit transmitted energy, which is
checked on the emitted table), Q from libm's erfc, and `exact` = Craig's
integral (1/pi) int_0^{pi - pi/M} exp(-dmin^2/(4 N0 sin^2 t)) dt evaluated with
a fixed composite 96-point Gauss-Legendre rule whose nodes are computed here by
Newton iteration on the Legendre recurrence.  The rule is validated on every
run against the two closed forms it must reproduce (M=2: Q, M=4: 2Q-Q^2).
"""
import math

import numpy as np

from vmc import bfs, common
from vmc.numerics import EPS, PROB_FLOOR
from vmc.parallel import run_shards, shard
from vmc.report import Broken, Check

PID = "C16"
LEVEL = "exploration"
ENGINE = "E1 exhaustive product enumerator"
RULE = ("objects: BPSK, QPSK(+setPhaseOffset), PSK(2^1..2^10) x 8 constructed offsets and x 8 offsets "
        "after setPhaseOffset, QAM(4^1..4^6); SNR grid -30..60 dB step 0.5 (thorough 0.1) as 1-D array, "
        "2-D array, Python float / numpy scalar / Python int scalars, and 100,150,200 dB; packet lengths "
        "1,2,50,1000 (thorough + 3,7,12000); per (object, SNR): range, monotonicity, limit, "
        "BER<=SER<=K*BER, PER and spectral-efficiency composition, SER against the value rebuilt from "
        "the emitted symbols (dmin, energy, levels per axis), PSK sandwich against Craig's integral; "
        "qfunc and dB2Linear on their own grids; per object call sequences on ONE object with ONE SNR array "
        "object rewritten in place (6 rewrites x 2 function orders, scalars in between, PSK interleaved "
        "with 8 setPhaseOffset calls) against a fresh object on a fresh copy, arguments bit-identical after "
        "every call, 12 other dtypes/layouts of the SNR array and 0-d. A case is non-trivial when the SER at the grid point "
        "lies in (1e-12, 0.999); distinct = distinct (kind, M, table digest)")

C_REL = 1e3                 # c of numerics: |lhs-rhs| <= C_REL * eps * kappa * scale + PROB_FLOOR
ENERGY_TOL = 1e-12
QUAD_REL = 1e-10            # accepted relative error of the Gauss-Legendre Craig integral
GL_ORDER = 96
LIMIT_AT_200DB = 1e-12


# ----------------------------------------------------------------------
# alphabets
# ----------------------------------------------------------------------
def offsets(M):
    return [0.0, math.pi / M, math.pi / 4, math.pi / 7, 1.0, -2.5, 2 * math.pi + 0.3,
            2 * math.pi * common.seed_offset(1)]


def snr_grid(tier):
    step = 0.1 if tier == "thorough" else 0.5
    n = int(round(90 / step))
    return np.array([-30.0 + step * i for i in range(n + 1)])


def packet_lengths(tier):
    return [1, 2, 50, 1000] + ([3, 7, 12000] if tier == "thorough" else [])


def objects():
    out = [{"kind": "bpsk", "M": 2, "history": []}, {"kind": "qpsk", "M": 4, "history": []},
           {"kind": "qpsk", "M": 4, "history": [["set", 1.0]]}]
    for k in range(1, 11):
        M = 2 ** k
        offs = offsets(M)
        for p in offs:
            out.append({"kind": "psk", "M": M, "history": [["new", p]]})
        for j, p in enumerate(offs):
            out.append({"kind": "psk", "M": M, "history": [["new", offs[(j + 3) % 8]], ["set", p]]})
        if k % 2 == 0:
            out.append({"kind": "qam", "M": M, "history": []})
    out.append({"kind": "qam", "M": 4 ** 6, "history": []})
    return out


def build(kind, M, hist):
    from pyphysim.modulators import fundamental as F
    if kind == "bpsk":
        return F.BPSK()
    if kind == "qam":
        return F.QAM(M)
    if kind == "qpsk":
        m, evs = F.QPSK(), hist
    else:
        m, evs = F.PSK(M, hist[0][1]), hist[1:]
    for ev in evs:
        m.setPhaseOffset(ev[1])
    return m


def kind_label(kind, hist):
    """label used in signatures (QPSK is a PSK)"""
    if kind in ("psk", "qpsk"):
        return "psk_after_setPhaseOffset" if any(ev[0] == "set" for ev in hist) else "psk"
    return kind


# ----------------------------------------------------------------------
# oracle pieces
# ----------------------------------------------------------------------
def Q(x):
    """Gaussian tail through libm's erfc (the library goes through scipy.special)"""
    x = np.asarray(x, dtype=float)
    return np.array([0.5 * math.erfc(v / math.sqrt(2.0)) for v in x.ravel().tolist()]).reshape(x.shape)


def lin(snr_db):
    """10^(dB/10) through exp (the library uses pow)"""
    d = np.asarray(snr_db, dtype=float)
    return np.array([math.exp(v * (math.log(10.0) / 10.0)) for v in d.ravel().tolist()]).reshape(d.shape)


def gauss_legendre(n):
    """nodes and weights on [-1,1] by Newton iteration on P_n (no library call)"""
    xs, ws = [], []
    for i in range(n):
        x = math.cos(math.pi * (i + 0.75) / (n + 0.5))
        for _ in range(100):
            p0, p1 = 1.0, x
            for k in range(2, n + 1):
                p0, p1 = p1, ((2 * k - 1) * x * p1 - (k - 1) * p0) / k
            dp = n * (x * p1 - p0) / (x * x - 1.0)
            dx = p1 / dp
            x -= dx
            if abs(dx) < 1e-16:
                break
        p0, p1 = 1.0, x
        for k in range(2, n + 1):
            p0, p1 = p1, ((2 * k - 1) * x * p1 - (k - 1) * p0) / k
        dp = n * (x * p1 - p0) / (x * x - 1.0)
        xs.append(x)
        ws.append(2.0 / ((1.0 - x * x) * dp * dp))
    return np.array(xs), np.array(ws)


_GL = gauss_legendre(GL_ORDER)


def craig(a, upper, refine=False):
    """(1/pi) * integral_0^upper exp(-a / sin^2 t) dt for an array `a` >= 0.
    Fixed composite rule: panel edges accumulate geometrically at 0 and pi
    (the integrand switches on where sin t ~ sqrt(a)) and at pi/2 (for large a
    it is a peak of width ~ 1/sqrt(a)); `refine` halves every panel (used only
    to validate the rule against itself)."""
    a = np.asarray(a, dtype=float)
    x, w = _GL
    half = math.pi / 2
    geo = [2.0 ** -k for k in range(0, 21)]
    cuts = set(geo) | set(math.pi - g for g in geo) | {half}
    for d in (0.5, 0.25, 0.12, 0.06, 0.03, 0.015):
        cuts |= {half - d, half + d}
    edges = [0.0] + sorted(c for c in cuts if 0.0 < c < upper) + [upper]
    if refine:
        mids = [0.5 * (lo + hi) for lo, hi in zip(edges[:-1], edges[1:])]
        edges = sorted(edges + mids)
    tot = np.zeros(a.shape)
    with np.errstate(under="ignore"):
        for lo, hi in zip(edges[:-1], edges[1:]):
            t = 0.5 * (hi - lo) * x + 0.5 * (hi + lo)
            s2 = np.sin(t) ** 2
            f = np.exp(-a[..., None] / s2)
            tot = tot + 0.5 * (hi - lo) * (f * w).sum(axis=-1)
    return tot / math.pi


def cluster(values, tol):
    """sorted distinct levels of `values` (gaps <= tol merge; level = mean, never rounded)"""
    v = np.sort(np.asarray(values, dtype=float))
    groups = [[v[0]]]
    for t in v[1:]:
        if t - groups[-1][-1] <= tol:
            groups[-1].append(t)
        else:
            groups.append([t])
    return np.array([math.fsum(g) / len(g) for g in groups])


_GEO = {}


def geometry(sym):
    """dmin (brute force, all pairs), mean energy, and the structure facts the
    closed forms rely on: PSK-like (common radius, equal angular spacing) and
    square-grid (L x L levels, spacing dmin)"""
    key = (np.ascontiguousarray(sym).tobytes(), str(np.asarray(sym).dtype))
    g = _GEO.get(key)
    if g is not None:
        return g
    s = np.asarray(sym).astype(complex).ravel()
    M = s.size
    x, y = s.real.copy(), s.imag.copy()
    dmin2 = math.inf
    rows = max(1, (1 << 22) // M)
    for a in range(0, M, rows):
        d2 = (x[a:a + rows, None] - x[None, :]) ** 2 + (y[a:a + rows, None] - y[None, :]) ** 2
        for r in range(d2.shape[0]):
            d2[r, a + r] = math.inf
        dmin2 = min(dmin2, float(d2.min()))
    dmin = math.sqrt(dmin2)
    energy = math.fsum((x * x + y * y).tolist()) / M
    rad = np.hypot(x, y)
    ang = np.sort(np.arctan2(y, x))
    gaps = np.diff(np.concatenate([ang, [ang[0] + 2 * math.pi]]))
    circle = bool(np.max(np.abs(rad - rad.mean())) <= 1e-12
                  and np.max(np.abs(gaps - 2 * math.pi / M)) <= 1e-9)
    tol = 1e-6 * dmin
    lx, ly = cluster(x, tol), cluster(y, tol)
    grid = False
    if lx.size == ly.size and lx.size * ly.size == M and lx.size >= 2:
        L = lx.size
        sx, sy = np.diff(lx), np.diff(ly)
        uniform = max(np.max(np.abs(sx - dmin)), np.max(np.abs(sy - dmin))) <= 1e-9 * dmin
        ix = np.argmin(np.abs(x[:, None] - lx[None, :]), axis=1)
        iy = np.argmin(np.abs(y[:, None] - ly[None, :]), axis=1)
        grid = bool(uniform and len(set(zip(ix.tolist(), iy.tolist()))) == M)
    g = dict(M=M, dmin=dmin, energy=energy, radius=float(rad.mean()), circle=circle, grid=grid,
             levels=int(lx.size))
    if len(_GEO) < 64:
        _GEO[key] = g
    return g


def bad_index(mask):
    w = np.nonzero(np.asarray(mask).ravel())[0]
    return int(w[0]) if w.size else None


# ----------------------------------------------------------------------
def check_vector(chk, lab, m, geo, snr_db, Ls, spec, form):
    """all relations on one SNR vector (1-D float array, ascending)"""
    K = math.log2(geo["M"])
    dmin = geo["dmin"]
    snr = lin(snr_db)
    xarg = dmin * np.sqrt(snr / 2.0)            # dmin / sqrt(2 N0), N0 = 1/snr
    # d log Q / d log x <~ max(1, x^2); the emitted coordinates (magnitude ~1) carry absolute
    # rounding ~eps, i.e. a relative error ~eps/dmin in the minimum distance extracted from them
    kappa = np.maximum(1.0, xarg * xarg) * max(1.0, 1.0 / dmin)
    arg = snr_db if form == "1d" else snr_db.reshape(1, -1)
    ser = np.asarray(m.calcTheoreticalSER(arg), dtype=float)
    ber = np.asarray(m.calcTheoreticalBER(arg), dtype=float)
    se0 = np.asarray(m.calcTheoreticalSpectralEfficiency(arg), dtype=float)
    per = {L: np.asarray(m.calcTheoreticalPER(arg, L), dtype=float) for L in Ls}
    se = {L: np.asarray(m.calcTheoreticalSpectralEfficiency(arg, L), dtype=float) for L in Ls}
    named = [("SER", ser), ("BER", ber), ("SE", se0)] + [("PER", per[L]) for L in Ls] + [("SE", se[L]) for L in Ls]
    for name, v in named:
        if v.shape != np.shape(arg):
            chk.fail(("shape", name, lab, form), dict(spec, fn=name), observed=v.shape, expected=np.shape(arg))
            return None
    n = snr_db.size
    chk.count("eval_rate_points", n * (3 + 2 * len(Ls)))
    ser, ber, se0 = ser.ravel(), ber.ravel(), se0.ravel()
    per = {L: v.ravel() for L, v in per.items()}
    se = {L: v.ravel() for L, v in se.items()}

    def fail(sig, i, observed, expected, **kw):
        chk.fail(sig, dict(spec, snr_db=float(snr_db[i]), form=form, **kw), observed=observed, expected=expected)

    # 1. probabilities in [0,1]; spectral efficiency in [0,K]
    for name, v, hi in [("SER", ser, 1.0), ("BER", ber, 1.0)] + [("PER", per[L], 1.0) for L in Ls] \
            + [("SE", se0, K)] + [("SE", se[L], K) for L in Ls]:
        i = bad_index(~(np.isfinite(v) & (v >= 0.0) & (v <= hi)))
        if i is not None:
            fail(("range", name, lab), i, float(v[i]), "in [0,%g]" % hi)
    # 2. never increasing with SNR (SE never decreasing)
    for name, v, sgn in [("SER", ser, 1), ("BER", ber, 1)] + [("PER", per[L], 1) for L in Ls] \
            + [("SE", se0, -1)] + [("SE", se[L], -1) for L in Ls]:
        d = sgn * np.diff(v)
        i = bad_index(d > 4 * EPS * np.maximum(np.abs(v[1:]), np.abs(v[:-1])))
        if i is not None:
            fail(("monotone", name, lab), i + 1, "%r -> %r" % (float(v[i]), float(v[i + 1])),
                 "non-increasing" if sgn > 0 else "non-decreasing")
    # 3. BER <= SER <= K BER
    i = bad_index(ber > ser * (1 + C_REL * EPS) + PROB_FLOOR)
    if i is not None:
        fail(("BER<=SER", lab), i, "BER=%r SER=%r" % (float(ber[i]), float(ser[i])), "BER <= SER")
    i = bad_index(ser > K * ber * (1 + C_REL * EPS) + PROB_FLOOR)
    if i is not None:
        fail(("SER<=K*BER", lab), i, "SER=%r K*BER=%r" % (float(ser[i]), float(K * ber[i])), "SER <= log2(M) BER")
    # 4. PER = 1 - (1-BER)^L,  SE = K (1-PER)
    i = bad_index(np.abs(se0 - K * (1.0 - ber)) > C_REL * EPS * K)
    if i is not None:
        fail(("SE", "composition", "no_packet_length"), i, float(se0[i]), float(K * (1 - ber[i])))
    for L in Ls:
        want = -np.expm1(L * np.log1p(-ber))
        i = bad_index(np.abs(per[L] - want) > 4 * L * EPS + PROB_FLOOR)
        if i is not None:
            fail(("PER", "composition"), i, float(per[L][i]), float(want[i]), packet_length=L)
        i = bad_index(np.abs(se[L] - K * (1.0 - per[L])) > C_REL * EPS * K)
        if i is not None:
            fail(("SE", "composition"), i, float(se[L][i]), float(K * (1 - per[L][i])), packet_length=L)
    # 5. SER against the emitted constellation
    q = Q(xarg)
    base = lab.split("_")[0]
    if base == "bpsk":
        want = q
    elif base == "qam":
        Lv = geo["levels"]
        want = 1.0 - (1.0 - 2.0 * (1.0 - 1.0 / Lv) * q) ** 2
    else:
        want = 2.0 * q
    tol = C_REL * EPS * kappa * np.maximum(np.abs(want), np.abs(ser)) + PROB_FLOOR
    i = bad_index(~(np.abs(ser - want) <= tol))
    if i is not None:
        fail(("SER", base, "vs_emitted_constellation"), i, float(ser[i]), float(want[i]),
             dmin=dmin, energy=geo["energy"])
    if base == "psk":
        exact = craig(dmin * dmin * snr / 4.0, math.pi - math.pi / geo["M"])
        slack = 1 + QUAD_REL + C_REL * EPS * kappa
        i = bad_index(exact > ser * slack + PROB_FLOOR)
        if i is not None:
            fail(("SER", "psk", "below_exact_error_rate"), i, float(ser[i]), ">= %r" % float(exact[i]))
        i = bad_index(ser > 2.0 * exact * slack + PROB_FLOOR)
        if i is not None:
            fail(("SER", "psk", "above_twice_exact_error_rate"), i, float(ser[i]), "<= %r" % float(2 * exact[i]))
        chk.count("eval_craig_integrals", n)
    nt = (ser > 1e-12) & (ser < 0.999)
    chk.count("nontrivial_rate_points", int(nt.sum()))
    return dict(ser=ser, ber=ber, se0=se0, per=per, se=se, kappa=kappa)


def check_scalars(chk, lab, m, geo, snr_db, Ls, spec, ref):
    """scalar SNR arguments must give the array's values (up to the rounding of
    pow(10, x/10) amplified by the tail's condition number)"""
    K = math.log2(geo["M"])
    for i, d in enumerate(snr_db.tolist()):
        variants = [("pyfloat", d), ("np_float64", np.float64(d))]
        if float(d).is_integer():
            variants.append(("pyint", int(d)))
        for vname, v in variants:
            got = [("SER", m.calcTheoreticalSER(v), ref["ser"][i], 1.0),
                   ("BER", m.calcTheoreticalBER(v), ref["ber"][i], 1.0),
                   ("SE", m.calcTheoreticalSpectralEfficiency(v), ref["se0"][i], 1.0)]
            for L in Ls:
                got.append(("PER", m.calcTheoreticalPER(v, L), ref["per"][L][i], float(L)))
                got.append(("SE", m.calcTheoreticalSpectralEfficiency(v, L), ref["se"][L][i], float(L)))
            chk.count("eval_scalar_calls", len(got))
            for name, g, want, amp in got:
                ok = np.ndim(g) == 0 and math.isfinite(float(g))
                scale = K if name == "SE" else max(abs(float(want)), abs(float(g)) if ok else 0.0)
                # PER / SE amplify a BER perturbation by up to L
                tol = C_REL * EPS * ref["kappa"][i] * max(scale, 0.0) * amp + PROB_FLOOR * amp
                if not ok or abs(float(g) - float(want)) > tol:
                    chk.fail(("scalar_vs_array", name), dict(spec, snr_db=d, fn=name, variant=vname),
                             observed=g, expected=float(want))


# ----------------------------------------------------------------------
# call sequences on ONE object / ONE argument object (no state may survive a call)
# ----------------------------------------------------------------------
RATE_FNS = ("SER", "BER", "PER", "SE", "SE0")
FN_ORDERS = (("SER", "BER", "PER", "SE", "SE0"), ("SE0", "SE", "PER", "BER", "SER"),
             ("BER", "SER", "SE", "PER", "SE0"), ("PER", "SE0", "SER", "SE", "BER"),
             ("SE", "PER", "BER", "SE0", "SER"))


def call_rate(m, fn, snr, L):
    if fn == "SER":
        return m.calcTheoreticalSER(snr)
    if fn == "BER":
        return m.calcTheoreticalBER(snr)
    if fn == "PER":
        return m.calcTheoreticalPER(snr, L)
    if fn == "SE":
        return m.calcTheoreticalSpectralEfficiency(snr, L)
    return m.calcTheoreticalSpectralEfficiency(snr)


def same_bits(a, b):
    a, b = np.asarray(a), np.asarray(b)
    return a.shape == b.shape and a.dtype == b.dtype and a.tobytes() == b.tobytes()


def check_call_sequences(chk, lab, kind, M, hist, spec, tier):
    """(a) one object, one SNR array object whose content is rewritten in place between
    calls, every function in several orders; (b) arguments bit-identical after every call;
    (d) for PSK interleaved with setPhaseOffset.  Reference: a FRESH object of the same
    history evaluating a FRESH copy of the content (bit-identical results expected: same
    code, same numbers, no state)."""
    base = lab.split("_")[0]
    m = build(kind, M, hist)
    L = 50
    start = np.array([-30.0 + 5.0 * i for i in range(16)])          # -30 .. 45 dB
    buf = start.copy()
    held = []          # (description, returned object, snapshot) - earlier results must not change later
    cur_hist = [list(ev) for ev in hist]

    def one_round(step, order):
        snap = buf.copy()
        fresh = build(kind, M, cur_hist)
        for fn in order:
            got = call_rate(m, fn, buf, L)
            want = call_rate(fresh, fn, snap.copy(), L)
            chk.count("eval_sequence_calls")
            case = dict(spec, what="call_sequence", step=step, order=list(order), fn=fn,
                        snr_db_content=snap.copy(), history_now=[list(ev) for ev in cur_hist])
            if not same_bits(buf, snap):
                chk.fail(("argument_modified", base), case, observed=buf.copy(), expected=snap)
                buf[:] = snap
            if not same_bits(got, want):
                i = bad_index(np.asarray(got, dtype=float).ravel() != np.asarray(want, dtype=float).ravel()) \
                    if np.shape(got) == np.shape(want) else None
                chk.fail(("call_sequence", base, "result_differs_from_fresh_object_on_fresh_copy"),
                         dict(case, position=i),
                         observed=np.asarray(got).ravel()[:4] if i is None else float(np.asarray(got).ravel()[i]),
                         expected=np.asarray(want).ravel()[:4] if i is None else float(np.asarray(want).ravel()[i]),
                         msg="same object, same array object, content rewritten in place before this round")
            if isinstance(got, np.ndarray):
                held.append(("%s@%s" % (fn, step), got, got.copy()))

    rewrites = [("initial", lambda: None),
                ("buf += 20", lambda: np.add(buf, 20.0, out=buf)),
                ("buf -= 35", lambda: np.subtract(buf, 35.0, out=buf)),
                ("buf[:] = buf[::-1]", lambda: buf.__setitem__(slice(None), buf[::-1].copy())),
                ("buf *= 0.5", lambda: np.multiply(buf, 0.5, out=buf)),
                ("buf[3] = 12.25", lambda: buf.__setitem__(3, 12.25))]
    for k, (name, rewrite) in enumerate(rewrites):
        rewrite()
        one_round(name, FN_ORDERS[k % len(FN_ORDERS)])
        # the same content again, other order: idempotence
        one_round(name + " (repeat)", FN_ORDERS[(k + 2) % len(FN_ORDERS)])
    # scalar in between, then the buffer again
    for fn in RATE_FNS:
        g, w = call_rate(m, fn, 15.0, L), call_rate(build(kind, M, cur_hist), fn, 15.0, L)
        chk.count("eval_sequence_calls")
        if not same_bits(g, w):
            chk.fail(("call_sequence", base, "result_differs_from_fresh_object_on_fresh_copy"),
                     dict(spec, what="call_sequence", step="scalar after arrays", fn=fn), observed=g, expected=w)
    one_round("after scalars", FN_ORDERS[1])
    # (d) interleaved with setPhaseOffset
    if kind in ("psk", "qpsk"):
        for j, phi in enumerate(offsets(M)):
            m.setPhaseOffset(phi)
            cur_hist.append(["set", phi])
            if j % 2:
                np.add(buf, 1.5, out=buf)
            one_round("after setPhaseOffset #%d" % j, FN_ORDERS[j % len(FN_ORDERS)])
            # ... and independent of the history: a PSK constructed directly with this offset
            direct = build("psk", M, [["new", phi]])
            for fn in RATE_FNS:
                g, w = call_rate(m, fn, buf, L), call_rate(direct, fn, buf.copy(), L)
                chk.count("eval_sequence_calls")
                if not same_bits(g, w):
                    i = bad_index(np.asarray(g).ravel() != np.asarray(w).ravel()) if np.shape(g) == np.shape(w) else None
                    chk.fail(("call_sequence", base, "result_depends_on_setPhaseOffset_history"),
                             dict(spec, what="call_sequence", step="setPhaseOffset #%d" % j, fn=fn, position=i,
                                  history_now=[list(ev) for ev in cur_hist]),
                             observed=np.asarray(g).ravel()[:4] if i is None else float(np.asarray(g).ravel()[i]),
                             expected=np.asarray(w).ravel()[:4] if i is None else float(np.asarray(w).ravel()[i]))
            sym_now = np.asarray(m.symbols)
            if not same_bits(sym_now, np.asarray(build(kind, M, cur_hist).symbols)):
                chk.fail(("call_sequence", base, "symbols_differ_from_fresh_object"),
                         dict(spec, what="call_sequence", step="setPhaseOffset #%d" % j,
                              history_now=[list(ev) for ev in cur_hist]))
    for desc, obj, snapv in held:
        if not same_bits(obj, snapv):
            chk.fail(("returned_array_changed_by_later_call", base), dict(spec, what="call_sequence", result=desc),
                     observed=obj[:4], expected=snapv[:4])
            break
    chk.outcome("sequence_rounds", (base, len(held) > 0))


def snr_presentations(values):
    """(name, object, logical float64 content) for one 1-D float64 vector of integer-valued dB"""
    v = np.asarray(values, dtype=float)
    n = v.size
    out = [("readonly", None, v)]
    ro = v.copy()
    ro.flags.writeable = False
    out[0] = ("readonly", ro, v)
    big = np.zeros(3 * n)
    big[::3] = v
    out.append(("strided", big[::3], v))
    out.append(("negative_stride", v[::-1].copy()[::-1], v))
    out.append(("2d_T", v.reshape(n // 2, 2).T, v.reshape(n // 2, 2).T.copy()))
    out.append(("2d_F", np.asfortranarray(v.reshape(2, n // 2)), v.reshape(2, n // 2)))
    out.append(("3d_swap", v.reshape(n // 4, 2, 2).swapaxes(0, 1), v.reshape(n // 4, 2, 2).swapaxes(0, 1).copy()))
    for dt in ("int64", "int32", "int16", "int8"):
        out.append((dt, v.astype(dt), v))
    out.append(("float32", v.astype(np.float32), v))
    out.append(("float32_2d_T", v.astype(np.float32).reshape(n // 2, 2).T, v.reshape(n // 2, 2).T.copy()))
    return out


def check_snr_presentations(chk, lab, m, spec, kappa_of):
    """(c) other dtypes / layouts of the SNR argument against the float64 C-contiguous result"""
    base = lab.split("_")[0]
    L = 50
    vals = np.array([-30.0 + 5.0 * i for i in range(16)])
    ref = {fn: np.asarray(call_rate(m, fn, vals.copy(), L), dtype=float) for fn in RATE_FNS}
    for name, obj, logical in snr_presentations(vals):
        snap = obj.copy()
        chk.outcome("snr_presentation", name)
        for fn in RATE_FNS:
            case = dict(spec, what="snr_presentation", presentation=name, fn=fn)
            got = call_rate(m, fn, obj, L)
            chk.count("eval_presentation_calls")
            if not same_bits(obj, snap):
                chk.fail(("argument_modified", base), case, observed=obj, expected=snap)
                return
            want = np.asarray(call_rate(m, fn, np.ascontiguousarray(logical, dtype=float), L), dtype=float)
            cls = "float32" if name.startswith("float32") else ("int_dtype" if name.startswith("int") else "layout")
            if np.shape(got) != np.shape(obj):
                chk.fail(("snr_presentation", base, cls, "shape"), case, observed=np.shape(got), expected=np.shape(obj))
                continue
            g = np.asarray(got, dtype=float)
            if cls == "float32":
                # the library computes pow(10, x/10) in single precision for single-precision input
                kap = kappa_of(np.asarray(logical, dtype=float))
                amp = float(L) if fn in ("PER", "SE") else 1.0
                scale = np.maximum(np.abs(want), np.abs(g)) if fn in ("SER", "BER", "PER") else math.log2(spec["M"])
                bad = ~(np.abs(g - want) <= 64 * 2.0 ** -23 * kap * scale * amp + 8 * 2.0 ** -23 * amp)
            else:
                bad = ~((g == want) | (np.isnan(g) & np.isnan(want)))
            i = bad_index(bad)
            if i is not None:
                chk.fail(("snr_presentation", base, cls, "differs_from_float64_result"), dict(case, position=i),
                         observed=float(g.ravel()[i]), expected=float(want.ravel()[i]))
    # 0-d arrays against scalars
    for d in (-30.0, 0.0, 12.5, 45.0):
        for fn in RATE_FNS:
            z = np.array(d)
            g, w = call_rate(m, fn, z, L), call_rate(m, fn, d, L)
            chk.count("eval_presentation_calls")
            if np.ndim(g) != 0 or float(g) != float(w) or float(z) != d:
                chk.fail(("snr_presentation", base, "0d", "differs_from_scalar_result"),
                         dict(spec, what="snr_presentation", presentation="0d", fn=fn, snr_db=d), observed=g, expected=w)
    ref.clear()


def obj_digest(m):
    out = [type(m).__name__]
    for k in sorted(bfs.state_of(m)):
        v = bfs.state_of(m)[k]
        if isinstance(v, np.ndarray):
            out.append((k, str(v.dtype), v.shape, v.tobytes()))
        else:
            out.append((k, type(v).__name__, repr(v)))
    return tuple(out)


def public_state(m):
    """the state the property observes: class, M, K and the emitted table"""
    sym = np.asarray(m.symbols)
    return (type(m).__name__, repr(m.M), repr(float(m.K)), str(sym.dtype), sym.shape, sym.tobytes())


def check_error_paths_and_falsy(chk, lab, kind, M, hist, spec):
    """(1) tools/INVALID_CALL_POLICY.md: an invalid call (SNR 'x' / None / list, packet length 'x' /
    None) is free as a call - what it did is recorded as an outcome.  Afterwards the object must be
    coherent for its REPORTED state (M = len(symbols), K = log2 M) and valid calls must give exactly
    the results of a fresh object put into that reported configuration.
    (4) falsy-but-valid arguments (0 dB as 0 / 0.0 / -0.0 / arrays of zeros, packet length 1,
    packet_length None vs omitted) are ordinary values; name/repr are pure observers"""
    base = lab.split("_")[0]
    m = build(kind, M, hist)
    L = 50
    vals = np.array([-10.0, 0.0, 7.5, 20.0])
    ref = {fn: call_rate(m, fn, vals.copy(), L) for fn in RATE_FNS}
    before = public_state(m)
    bad_calls = [(fn, bad, L) for fn in RATE_FNS for bad in ("x", None, [1.0, 2.0])]
    bad_calls += [("PER", vals.copy(), badL) for badL in ("x", None, [2])] + [("SE", vals.copy(), "x")]
    for fn, snr, pl in bad_calls:
        chk.count("eval_error_path_calls")
        d0 = obj_digest(m)
        try:
            call_rate(m, fn, snr, pl)
            how = "accepted"
        except Exception as e:  # noqa
            how = "raised:" + type(e).__name__
        chk.outcome("invalid_call", ("%s(snr=%s, L=%s)" % (fn, type(snr).__name__, type(pl).__name__), how,
                                     "object_changed" if obj_digest(m) != d0 else "object_unchanged"))
        repr(m), m.name, m.M, m.K
    # coherence of the reported state
    case = dict(spec, what="error_path")
    sym = np.asarray(m.symbols)
    if sym.ndim != 1 or m.M != sym.size or abs(float(m.K) - math.log2(max(1, sym.size))) > 1e-12:
        chk.fail(("after_invalid_call", "rates", "M_or_K_differ_from_emitted_table"), case,
                 observed="M=%r K=%r len(symbols)=%r" % (m.M, m.K, sym.shape), expected="M = len(symbols), K = log2 M")
    # valid calls against a fresh object in the same reported configuration
    fresh = build(kind, M, hist)
    if public_state(m) != before:
        fresh.setConstellation(sym.copy())
    for fn in RATE_FNS:
        g, w = call_rate(m, fn, vals.copy(), L), call_rate(fresh, fn, vals.copy(), L)
        if not same_bits(g, w):
            chk.fail(("after_invalid_call", "rates", "valid_call_differs_from_fresh_object"), dict(case, fn=fn),
                     observed=np.asarray(g).ravel()[:4], expected=np.asarray(w).ravel()[:4])
    if public_state(m) != before:
        chk.count("objects_reconfigured_by_invalid_calls")
        chk.outcome("error_paths", (base, len(bad_calls)))
        return
    # falsy SNR values: all of them are 0 dB
    for fn in RATE_FNS:
        want = float(np.asarray(ref[fn])[1])
        for name, z in (("int0", 0), ("0.0", 0.0), ("-0.0", -0.0), ("np.float64(-0.0)", np.float64(-0.0)),
                        ("np.int64(0)", np.int64(0)), ("0d", np.array(0.0)), ("zeros(3)", np.zeros(3)),
                        ("[-0.0,0.0]", np.array([-0.0, 0.0])), ("int zeros", np.zeros(2, dtype=int)),
                        ("False", False)):
            g = call_rate(m, fn, z, L)
            chk.count("eval_falsy_calls")
            if np.shape(g) != np.shape(z) or not np.all(np.asarray(g, dtype=float) == want):
                chk.fail(("falsy_argument", base, "snr_zero"), dict(spec, what="falsy", fn=fn, snr=name),
                         observed=g, expected=want)
    # packet length 1 (in every integer type) is the BER itself; None and omitted are the same call
    ber = np.asarray(ref["BER"], dtype=float)
    K = math.log2(M)
    for one in (1, np.int64(1), np.uint8(1), True, 1.0):
        per1 = np.asarray(m.calcTheoreticalPER(vals.copy(), one), dtype=float)
        se1 = np.asarray(m.calcTheoreticalSpectralEfficiency(vals.copy(), one), dtype=float)
        chk.count("eval_falsy_calls", 2)
        if np.any(np.abs(per1 - ber) > 4 * EPS) or np.any(np.abs(se1 - K * (1 - ber)) > 8 * EPS * K):
            chk.fail(("falsy_argument", base, "packet_length_one"), dict(spec, what="falsy", packet_length=repr(one)),
                     observed=per1, expected=ber)
    if not same_bits(m.calcTheoreticalSpectralEfficiency(vals.copy(), None),
                     m.calcTheoreticalSpectralEfficiency(vals.copy())):
        chk.fail(("falsy_argument", base, "packet_length_None_vs_omitted"), dict(spec, what="falsy"))
    chk.outcome("error_paths", (base, len(bad_calls)))


def check_pairs(chk, tier):
    """(2) several live objects used alternately with ONE shared SNR buffer rewritten between rounds,
    every order of the calls; (3) QPSK against PSK(4, pi/4).  Each result must equal what the same object
    returned when it was alone (before the sibling existed) - bit for bit - and the oracle of check_vector
    must still hold for both afterwards."""
    import itertools
    pi = math.pi
    specs = {"psk4": ("psk", 4, [["new", 0.0]]), "qam4": ("qam", 4, []), "psk16": ("psk", 16, [["new", 0.0]]),
             "qam16": ("qam", 16, []), "psk64": ("psk", 64, [["new", pi / 7]]), "qam64": ("qam", 64, []),
             "psk8a": ("psk", 8, [["new", 0.0]]), "psk8b": ("psk", 8, [["new", 1.0]]), "bpsk": ("bpsk", 2, []),
             "qpsk": ("qpsk", 4, []), "psk4q": ("psk", 4, [["new", pi / 4]]), "psk2": ("psk", 2, [["new", 0.0]])}
    pairs = [("psk4", "qam4"), ("psk16", "qam16"), ("psk64", "qam64"), ("psk8a", "psk8b"), ("bpsk", "qpsk"),
             ("psk8a", "psk16"), ("qpsk", "psk4q"), ("bpsk", "psk2"), ("qam4", "qam16"), ("qam16", "qam64")]
    contents = [np.array([-30.0 + 5.0 * i for i in range(16)]) + d for d in (0.0, 20.0, -7.5)]
    L = 50
    for na, nb in pairs:
        for first, second in ((na, nb), (nb, na)):
            case = {"kind": "pair", "objects": [first, second]}
            with chk.guard(("pair",), case):
                A = build(*specs[first])
                alone = {(first, fn, c): call_rate(A, fn, contents[c].copy(), L) for fn in RATE_FNS for c in range(3)}
                B = build(*specs[second])
                loneB = build(*specs[second])
                alone.update({(second, fn, c): call_rate(loneB, fn, contents[c].copy(), L)
                              for fn in RATE_FNS for c in range(3)})
                objs = {first: A, second: B}
                dig = {first: public_state(A), second: public_state(B)}
                buf = contents[0].copy()
                rounds = 0
                for fa, fb in (("SER", "BER"), ("PER", "SE"), ("SE0", "SER")):
                    calls = [(first, fa), (second, fa), (first, fb), (second, fb)]
                    for perm in itertools.permutations(calls):
                        c = rounds % 3
                        buf[:] = contents[c]                # same buffer object, new content
                        rounds += 1
                        for step, (nm, fn) in enumerate(list(perm) + list(perm)[:2]):
                            g = call_rate(objs[nm], fn, buf, L)
                            chk.count("eval_pair_calls")
                            if not same_bits(g, alone[(nm, fn, c)]):
                                w = alone[(nm, fn, c)]
                                i = bad_index(np.asarray(g).ravel() != np.asarray(w).ravel()) \
                                    if np.shape(g) == np.shape(w) else None
                                chk.fail(("pair", "result_differs_from_lone_object"),
                                         dict(case, sequence=[list(x) for x in perm], step=step, fn=fn, object=nm,
                                              content=c, position=i),
                                         observed=np.asarray(g).ravel()[:4] if i is None else float(np.asarray(g).ravel()[i]),
                                         expected=np.asarray(w).ravel()[:4] if i is None else float(np.asarray(w).ravel()[i]))
                                break
                        else:
                            continue
                        break
                for nm in (first, second):
                    if public_state(objs[nm]) != dig[nm]:
                        chk.fail(("pair", "object_changed_by_calls"), dict(case, object=nm))
                    kind, M, hist = specs[nm]
                    spec = {"kind": kind, "M": M, "history": hist, "pair": [first, second]}
                    check_vector(chk, kind_label(kind, hist), objs[nm], geometry(np.asarray(objs[nm].symbols)),
                                 contents[0] + 30.0, [1, L], spec, "1d")
            chk.outcome("pairs", (first, second))
    # (3) convenience subclass against the general constructor
    case = {"kind": "pair", "objects": ["qpsk", "psk4q"], "what": "entry_points"}
    with chk.guard(("pair", "entry_points"), case):
        q, p = build(*specs["qpsk"]), build(*specs["psk4q"])
        for fn in RATE_FNS:
            for c in range(3):
                if not same_bits(call_rate(q, fn, contents[c].copy(), L), call_rate(p, fn, contents[c].copy(), L)):
                    chk.fail(("pair", "QPSK!=PSK(4,pi/4)", fn), dict(case, fn=fn, content=c))
        # a PSK whose table is replaced through setConstellation() follows the new table's order
        from pyphysim.modulators import fundamental as F
        m = F.PSK(8)
        m.setConstellation(np.asarray(F.PSK(16, 0.4).symbols).copy())
        spec = {"kind": "psk", "M": 16, "history": [["new", 0.4]], "via": "PSK(8).setConstellation(PSK(16,0.4).symbols)"}
        check_vector(chk, "psk", m, geometry(np.asarray(m.symbols)), contents[0] + 30.0, [1, L], spec, "1d")
        ref16 = F.PSK(16, 0.4)
        for fn in RATE_FNS:
            if not same_bits(call_rate(m, fn, contents[1].copy(), L), call_rate(ref16, fn, contents[1].copy(), L)):
                chk.fail(("pair", "setConstellation_table_not_followed", fn), dict(case, fn=fn))


# ----------------------------------------------------------------------
# every scalar argument in every scalar TYPE gives the value of the equal-valued Python number
# ----------------------------------------------------------------------
def packet_length_forms(L):
    out = [("np.int64", np.int64(L)), ("np.int32", np.int32(L)), ("np.intp", np.intp(L)),
           ("np.uint16", np.uint16(L)), ("np.uint32", np.uint32(L)), ("np.uint64", np.uint64(L)),
           ("array_element", np.array([3, L, 7])[1]), ("0d_int_array", np.array(L)),
           ("pyfloat", float(L)), ("np.float64", np.float64(L))]
    if L <= 32767:
        out.append(("np.int16", np.int16(L)))
    if L <= 255:
        out.append(("np.uint8", np.uint8(L)))
    if L <= 127:
        out.append(("np.int8", np.int8(L)))
    return out


def snr_scalar_forms(v):
    """(name, class, object) for one dB value; integer types only for integer values"""
    out = [("pyfloat", "float64", float(v)), ("np.float64", "float64", np.float64(v)),
           ("0d_float_array", "0d_or_1_element_array", np.array(float(v))),
           ("1_element_array", "0d_or_1_element_array", np.array([float(v)])),
           ("1x1_array", "0d_or_1_element_array", np.array([[float(v)]])),
           ("np.float32", "float32", np.float32(v))]
    if float(v).is_integer():
        iv = int(v)
        out += [("pyint", "integer", iv), ("np.int64", "integer", np.int64(iv)), ("np.int32", "integer", np.int32(iv)),
                ("np.int8", "integer", np.int8(iv)), ("0d_int_array", "0d_or_1_element_array", np.array(iv)),
                ("1_element_int_array", "0d_or_1_element_array", np.array([iv]))]
        if iv >= 0:
            out.append(("np.uint8", "integer", np.uint8(iv)))
    return out


def check_scalar_forms(chk, lab, m, geo, spec):
    """PER / SE (base-class implementations, reached through this object) with the packet length in every
    scalar type; SER / BER / PER / SE with a scalar SNR in every scalar type.  Reference: the same object
    called with the equal-valued Python int (packet length) / Python float (SNR)."""
    base = lab.split("_")[0]
    K = math.log2(geo["M"])
    dmin = geo["dmin"]
    vec = np.array([-10.0, 0.0, 7.5, 20.0])
    for L in (1, 2, 50, 120, 1000):
        for snr_name, snr in (("array", vec), ("scalar", 7.5)):
            want_per = np.asarray(m.calcTheoreticalPER(snr, L), dtype=float)
            want_se = np.asarray(m.calcTheoreticalSpectralEfficiency(snr, L), dtype=float)
            for name, Lf in packet_length_forms(L):
                chk.count("eval_scalar_form_calls", 2)
                chk.outcome("packet_length_form", name)
                case = dict(spec, what="scalar_form", argument="packet_length", form=name, packet_length=L, snr=snr_name)
                for fn, want, scale in (("PER", want_per, 1.0), ("SE", want_se, K)):
                    got = call_rate(m, fn, snr, Lf)
                    g = np.asarray(got, dtype=float)
                    if g.shape != want.shape or not np.all(np.abs(g - want) <= 4 * L * EPS * scale + PROB_FLOOR):
                        i = bad_index(~(np.abs(g - want) <= 4 * L * EPS * scale + PROB_FLOOR)) if g.shape == want.shape else None
                        chk.fail(("scalar_form", "packet_length", fn), dict(case, fn=fn, position=i),
                                 observed=g.ravel()[:4] if i is None else float(g.ravel()[i]),
                                 expected=want.ravel()[:4] if i is None else float(want.ravel()[i]),
                                 msg="packet length given as %s instead of the equal Python int" % name)
    Lp = 50
    for v in (-10, 0, 7, 20, 7.5, -2.25):
        x = dmin * math.sqrt(float(lin(float(v))) / 2.0)
        kappa = max(1.0, x * x) * max(1.0, 1.0 / dmin)
        ref = {fn: float(call_rate(m, fn, float(v), Lp)) for fn in RATE_FNS}
        for name, cls, obj in snr_scalar_forms(v):
            chk.outcome("snr_scalar_form", name)
            for fn in RATE_FNS:
                got = call_rate(m, fn, obj, Lp)
                chk.count("eval_scalar_form_calls")
                g = np.asarray(got, dtype=float)
                amp = float(Lp) if fn in ("PER", "SE") else 1.0
                scale = K if fn in ("SE", "SE0") else max(abs(ref[fn]), float(np.max(np.abs(g))) if g.size else 0.0)
                if cls == "float32":
                    tol = 64 * 2.0 ** -23 * kappa * scale * amp + 8 * 2.0 ** -23 * amp
                else:
                    tol = C_REL * EPS * kappa * scale * amp + PROB_FLOOR * amp
                if g.shape != np.shape(obj) or not np.all(np.abs(g - ref[fn]) <= tol):
                    chk.fail(("scalar_form", "snr", cls, fn),
                             dict(spec, what="scalar_form", argument="snr", form=name, snr_db=float(v), fn=fn),
                             observed=got, expected=ref[fn],
                             msg="SNR given as %s instead of the equal Python float" % name)


def check_numpy_int_cardinality(chk):
    """M at construction as numpy integers: the object must be the one built from the Python int"""
    from pyphysim.modulators import fundamental as F
    vec = np.array([-10.0, 0.0, 7.5, 20.0])
    for clsname, Ms in (("PSK", (2, 8, 64, 1024)), ("QAM", (4, 16, 256, 4096))):
        cls = getattr(F, clsname)
        for M in Ms:
            ref = cls(M)
            for dt in ("int64", "int32", "int16", "uint16", "uint32", "uint64", "intp", "uint8", "int8"):
                if M > np.iinfo(dt).max:
                    continue
                case = {"kind": "cardinality_form", "cls": clsname, "M": M, "dtype": dt}
                chk.count("eval_scalar_form_calls")
                with chk.guard(("scalar_form", "M_at_construction", clsname), case):
                    try:
                        m = cls(np.dtype(dt).type(M))
                    except Exception as e:  # noqa   (construction is C01's business: free here, recorded)
                        chk.outcome("invalid_call", ("%s(%s)" % (clsname, dt), "raised:" + type(e).__name__, "-"))
                        continue
                    chk.outcome("cardinality_form", (clsname, dt))
                    if public_state(m) != public_state(ref):
                        chk.fail(("scalar_form", "M_at_construction", clsname, "different_object"), case,
                                 observed=public_state(m)[:5], expected=public_state(ref)[:5])
                        continue
                    for fn in RATE_FNS:
                        for snr in (vec, 7.5):
                            if not same_bits(call_rate(m, fn, snr, 50), call_rate(ref, fn, snr, 50)):
                                chk.fail(("scalar_form", "M_at_construction", clsname, fn), dict(case, fn=fn))


def check_object(chk, spec, tier):
    kind, M, hist = spec["kind"], spec["M"], spec["history"]
    lab = kind_label(kind, hist)
    base = lab.split("_")[0]
    with chk.guard(("rates", lab), spec):
        m = build(kind, M, hist)
        chk.count("eval_objects")
        sym = np.asarray(m.symbols)
        if sym.shape != (M,) or not np.all(np.isfinite(sym)):
            chk.fail(("emitted", base, "malformed_constellation"), spec, observed=sym.shape)
            return
        geo = geometry(sym)
        if not geo["dmin"] > 0.0:
            chk.fail(("emitted", base, "repeated_points"), spec, observed="dmin = %r" % geo["dmin"])
            return
        chk.nontriv((kind, M, bfs.digest(sym, 9)))
        chk.outcome("structure", (kind, M, geo["levels"] if base == "qam" else 0, geo["circle"], geo["grid"]))
        if abs(geo["energy"] - 1.0) > ENERGY_TOL:
            chk.fail(("emitted", base, "mean_energy"), spec, observed=geo["energy"], expected="1 +- %g" % ENERGY_TOL,
                     msg="the theoretical curves are functions of Es/N0 with Es = 1")
        if base == "psk" and not geo["circle"]:
            chk.fail(("emitted", "psk", "not_equally_spaced_on_a_circle"), spec, observed=geo)
        if base == "qam" and not (geo["grid"] and geo["levels"] ** 2 == M):
            chk.fail(("emitted", "qam", "not_a_square_grid"), spec, observed=geo)
        if base == "bpsk" and not (M == 2 and abs(sym[0] + sym[1]) <= 1e-12):
            chk.fail(("emitted", "bpsk", "not_antipodal"), spec, observed=sym)
        Ls = packet_lengths(tier)
        grid = snr_grid(tier)
        ref = check_vector(chk, lab, m, geo, grid, Ls, spec, "1d")
        check_vector(chk, lab, m, geo, grid, Ls, spec, "2d")
        if ref is not None:
            step = 1 if (tier == "thorough" or M <= 16) else 4
            sel = np.arange(0, grid.size, step)
            sub = dict(ser=ref["ser"][sel], ber=ref["ber"][sel], se0=ref["se0"][sel], kappa=ref["kappa"][sel],
                       per={L: v[sel] for L, v in ref["per"].items()}, se={L: v[sel] for L, v in ref["se"].items()})
            check_scalars(chk, lab, m, geo, grid[sel], Ls, spec, sub)
        with chk.guard(("call_sequence", base), dict(spec, what="call_sequence")):
            check_call_sequences(chk, lab, kind, M, hist, spec, tier)
        with chk.guard(("scalar_form", base), dict(spec, what="scalar_form")):
            check_scalar_forms(chk, lab, m, geo, spec)
        with chk.guard(("error_path", base), dict(spec, what="error_path")):
            check_error_paths_and_falsy(chk, lab, kind, M, hist, spec)
        with chk.guard(("snr_presentation", base), dict(spec, what="snr_presentation")):
            dm = geo["dmin"]
            check_snr_presentations(
                chk, lab, m, spec,
                lambda d: np.maximum(1.0, (dm * np.sqrt(lin(d) / 2.0)) ** 2) * max(1.0, 1.0 / dm))
        # limits: 60 -> 100 -> 150 -> 200 dB
        tail = np.array([60.0, 100.0, 150.0, 200.0])
        r = check_vector(chk, lab, m, geo, tail, Ls, spec, "1d")
        if r is not None:
            K = math.log2(M)
            lims = [("SER", r["ser"][-1]), ("BER", r["ber"][-1])] + [("PER", r["per"][L][-1]) for L in Ls]
            for name, v in lims:
                if not (0.0 <= v < LIMIT_AT_200DB):
                    chk.fail(("limit", name, lab), dict(spec, snr_db=200.0, fn=name), observed=float(v),
                             expected="< %g" % LIMIT_AT_200DB)
            for L in Ls:
                if abs(r["se"][L][-1] - K) > 1e-9:
                    chk.fail(("limit", "SE", lab), dict(spec, snr_db=200.0, packet_length=L),
                             observed=float(r["se"][L][-1]), expected=K)


def check_primitives(chk, tier):
    """util.misc.qfunc and util.conversion.dB2Linear on their own grids"""
    from pyphysim.util import conversion, misc
    n = 3801 if tier == "thorough" else 381
    x = np.array([38.0 * i / (n - 1) for i in range(n)])
    case = {"kind": "primitive", "fn": "qfunc"}
    with chk.guard(("qfunc",), case):
        got = np.asarray(misc.qfunc(x), dtype=float)
        want = Q(x)
        chk.count("eval_qfunc_points", 2 * n)
        tol = C_REL * EPS * np.maximum(1.0, x * x) * want + 1e-300
        i = bad_index(~(np.abs(got - want) <= tol))
        if i is not None:
            chk.fail(("qfunc", "vs_erfc_oracle"), dict(case, x=float(x[i])), observed=float(got[i]), expected=float(want[i]))
        # second, independent oracle on the range where the quadrature is validated
        sel = x <= 8.3
        cr = craig(x[sel] ** 2 / 2.0, math.pi / 2)
        i = bad_index(np.abs(got[sel] - cr) > QUAD_REL * cr + PROB_FLOOR)
        if i is not None:
            chk.fail(("qfunc", "vs_craig_integral"), dict(case, x=float(x[sel][i])), observed=float(got[sel][i]),
                     expected=float(cr[i]))
        for i in range(0, n, 7):
            g = misc.qfunc(float(x[i]))
            if np.ndim(g) != 0 or abs(float(g) - want[i]) > tol[i]:
                chk.fail(("qfunc", "scalar"), dict(case, x=float(x[i])), observed=g, expected=float(want[i]))
        d = np.diff(got)
        i = bad_index(d > 0)
        if i is not None:
            chk.fail(("qfunc", "increasing"), dict(case, x=float(x[i + 1])), observed=float(got[i + 1]),
                     expected="<= %r" % float(got[i]))
    case = {"kind": "primitive", "fn": "dB2Linear"}
    with chk.guard(("dB2Linear",), case):
        d = np.concatenate([snr_grid(tier), [100.0, 150.0, 200.0]])
        got = np.asarray(conversion.dB2Linear(d), dtype=float)
        want = lin(d)
        chk.count("eval_dB2Linear_points", 2 * d.size)
        i = bad_index(~(np.abs(got - want) <= C_REL * EPS * np.maximum(1.0, np.abs(d)) * want))
        if i is not None:
            chk.fail(("dB2Linear", "vs_exp_oracle"), dict(case, snr_db=float(d[i])), observed=float(got[i]),
                     expected=float(want[i]))
        for i in range(d.size):
            g = conversion.dB2Linear(float(d[i]))
            if np.ndim(g) != 0 or abs(float(g) - want[i]) > C_REL * EPS * max(1.0, abs(d[i])) * want[i]:
                chk.fail(("dB2Linear", "scalar"), dict(case, snr_db=float(d[i])), observed=g, expected=float(want[i]))


def validate_quadrature():
    """the fixed rule must reproduce the two closed forms of Craig's integral
    (M=2, M=4) and must agree with its own refinement for every PSK order"""
    d = np.concatenate([np.arange(-30.0, 60.25, 0.25), [100.0, 150.0, 200.0]])
    snr = lin(d)
    worst = 0.0
    for M, closed in ((2, lambda s: Q(np.sqrt(2 * s))),
                      (4, lambda s: 2 * Q(np.sqrt(s)) - Q(np.sqrt(s)) ** 2)):
        a = snr * math.sin(math.pi / M) ** 2
        c = craig(a, math.pi - math.pi / M)
        w = closed(snr)
        sel = w > PROB_FLOOR
        worst = max(worst, float(np.max(np.abs(c[sel] - w[sel]) / w[sel])))
    for k in range(1, 11):
        M = 2 ** k
        a = snr * math.sin(math.pi / M) ** 2
        c1 = craig(a, math.pi - math.pi / M)
        c2 = craig(a, math.pi - math.pi / M, refine=True)
        sel = c2 > PROB_FLOOR
        worst = max(worst, float(np.max(np.abs(c1[sel] - c2[sel]) / c2[sel])))
    x, w = _GL
    worst = max(worst, abs(float(w.sum()) - 2.0), abs(float((w * x ** 2).sum()) - 2.0 / 3.0))
    return worst


# ----------------------------------------------------------------------
def main(chk: Check):
    worst = validate_quadrature()
    chk.extra["gauss_legendre_order_per_panel"] = GL_ORDER
    chk.extra["craig_integral_worst_relative_error_vs_closed_forms"] = worst
    if not worst < QUAD_REL / 10:
        raise Broken("Gauss-Legendre Craig integral inaccurate: relative error %g" % worst)
    chk.extra["tolerance_c"] = C_REL
    chk.extra["tolerance_kappa"] = "max(1, (dmin*sqrt(snr/2))^2) * max(1, 1/dmin)"
    chk.extra["probability_floor"] = PROB_FLOOR
    chk.extra["quadrature_relative_slack"] = QUAD_REL
    chk.extra["energy_tolerance"] = ENERGY_TOL
    chk.extra["snr_grid"] = "-30..60 dB step %g (+100,150,200 dB)" % (0.1 if chk.tier == "thorough" else 0.5)
    chk.extra["packet_lengths"] = packet_lengths(chk.tier)
    chk.assume("SNR means Es/N0 with unit transmitted energy (N0 = 1/snr); the emitted table's mean energy "
               "is checked to be 1 +- 1e-12 so that a rescaled constellation disagrees with the curves")
    chk.assume("PER is compared with -expm1(L*log1p(-BER)) up to 4*L*2^-52 + 1e-15 absolute (the library's "
               "1-(1-BER)**L loses BER below 2^-53)")
    chk.assume("call sequences: one object and one SNR array object rewritten in place between calls (+=, -=, "
               "reversal, scaling, single element), every function in 5 orders, scalars in between, PSK "
               "interleaved with setPhaseOffset; results must be bit-identical to a fresh object of the same "
               "history on a fresh copy; arguments must be bit-identical after every call")
    chk.assume("SNR arguments as read-only / strided / negative-stride / transposed / Fortran / swapped-axes / "
               "int64..int8 arrays must give bit-identical results to the float64 C-contiguous array; float32 "
               "input is compared up to 64*2^-23*kappa relative + 8*2^-23*(L for PER/SE) absolute (the library then computes in single precision: 1-(1-x)**L cancels); "
               "Python lists are not legitimate SNR arguments (dB2Linear evaluates `list / 10.0`)")
    chk.assume("invalid calls (SNR 'x' / None / list, packet length 'x' / None) are free as calls "
               "(tools/INVALID_CALL_POLICY.md): raise/accept and digest change are recorded as outcomes; required "
               "afterwards: M = len(symbols), K = log2 M, and valid calls bit-identical to a fresh object in the "
               "same reported configuration; 0 dB as 0, 0.0, -0.0, False, numpy zeros and packet length 1 in five "
               "numeric types are ordinary values")
    chk.assume("pairs: 10 pairs of live objects (PSK/QAM of the same order, two PSKs, BPSK+QPSK, QPSK vs "
               "PSK(4,pi/4), ...) in both construction orders share one SNR buffer rewritten between rounds; "
               "every order of 4 calls x 3 function pairs, 6 calls deep, against the object's own lone results")
    chk.assume("scalar forms: packet lengths 1,2,50,120,1000 as np.int8..uint64/intp scalars, array element, 0-d "
               "array, Python float and np.float64 must give PER and SE of the equal Python int (4*L*2^-52 abs); "
               "scalar SNRs as Python int/float, np.float64/float32, np.int8..int64/uint8, 0-d, 1-element and 1x1 "
               "arrays must give the value of the equal Python float (float32 at single-precision tolerance); "
               "PSK/QAM built from numpy-integer M must be the object built from the Python int")
    chk.assume("scalar SNR arguments are compared with the array result of the same SNR (quick tier: every "
               "4th grid point for M > 16)")

    def worker(i, n, c):
        objs = objects()
        for spec in shard(objs, i, n):
            check_object(c, spec, c.tier)
        if i == 0:
            check_primitives(c, c.tier)
        if i == n - 1:
            check_pairs(c, c.tier)
        if i == n // 2:
            check_numpy_int_cardinality(c)

    run_shards(chk, worker)
    chk.sample({"kind": "psk", "M": 8, "history": [["new", 0.0], ["set", 1.0]]})
    chk.sample({"kind": "qam", "M": 64, "history": []})
    chk.require_outcomes("structure", 18)
    chk.require_outcomes("snr_presentation", 12)
    chk.require_outcomes("sequence_rounds", 3)
    chk.require_outcomes("pairs", 20)
    chk.require_outcomes("packet_length_form", 10)
    chk.require_outcomes("snr_scalar_form", 12)
    chk.require_outcomes("cardinality_form", 8)
    chk.require_outcomes("error_paths", 3)
    if chk.counters.get("nontrivial_rate_points", 0) < 1000:
        raise Broken("vacuous: only %d SNR points with a SER inside (1e-12, 0.999)"
                     % chk.counters.get("nontrivial_rate_points", 0))


def replay(case, chk: Check):
    if case.get("kind") == "cardinality_form":
        check_numpy_int_cardinality(chk)
        return
    if case.get("kind") == "pair" or "pair" in case or "via" in case:
        check_pairs(chk, chk.tier)
        return
    if case.get("kind") == "primitive":
        check_primitives(chk, chk.tier)
        return
    spec = {"kind": case["kind"], "M": int(case["M"]),
            "history": [[ev[0], float(ev[1])] for ev in case.get("history", [])]}
    check_object(chk, spec, chk.tier)
