"""Deterministic finite families of matrices / vectors / signals.

No random generator anywhere.  The generic family G_s is defined in closed form
(DESIGN 2.2): entry number q of member s uses the prime p_t,
t = (104729*s + 7919*q) mod NPR, as
      (0.5 + frac(sqrt(3 p_{t+1}))) * exp(2 pi j (frac(sqrt(p_t)) + offset)).
`offset` is the only place the seed enters.  (A Weyl sequence linear in row and
column index was discarded: separable phase -> rank-one -> ill conditioned.)
"""
import itertools
import math

import numpy as np

from . import common


def _primes(n):
    sieve = bytearray([1]) * (n + 1)
    sieve[0:2] = b"\0\0"
    for i in range(2, int(n ** 0.5) + 1):
        if sieve[i]:
            sieve[i * i::i] = bytearray(len(sieve[i * i::i]))
    return [i for i in range(n + 1) if sieve[i]]


_P = np.array(_primes(300000), dtype=float)   # 25997 primes
NPR = len(_P) - 2
_SQ = np.sqrt(_P) % 1.0
_SQ3 = np.sqrt(3.0 * _P) % 1.0


def generic(s, shape, complex_=True, offset=None, tag=0):
    """member s of the generic family with the given shape"""
    if offset is None:
        offset = common.seed_offset(tag)
    n = int(np.prod(shape)) if shape != () else 1
    q = np.arange(n, dtype=np.int64)
    t = (104729 * (int(s) + 1000 * int(tag)) + 7919 * q) % NPR
    mag = 0.5 + _SQ3[t + 1]
    ph = _SQ[t] + offset
    if complex_:
        a = mag * np.exp(2j * np.pi * ph)
    else:
        a = mag * np.where(((ph * 2) % 1.0) < 0.5, 1.0, -1.0) * (0.3 + (ph % 1.0))
    return a.reshape(shape)


def generic_unit(s, n, tag=0):
    """n distinguishable unit-ish complex symbols"""
    return generic(s, (n,), True, tag=tag)


def small_entry_matrices(shape, alphabet=(1, 1j, -1), limit=None):
    """all matrices of `shape` with entries in `alphabet` (exhaustive)"""
    n = int(np.prod(shape))
    it = itertools.product(alphabet, repeat=n)
    for i, ent in enumerate(it):
        if limit is not None and i >= limit:
            return
        yield np.array(ent, dtype=complex).reshape(shape)


def nearly_dependent(s, shape, kappa, tag=7):
    """generic member whose singular values are re-set to span exactly kappa"""
    A = generic(s, shape, True, tag=tag)
    U, S, Vh = np.linalg.svd(A, full_matrices=False)
    k = len(S)
    if k == 1:
        return A
    newS = np.array([kappa ** (-i / (k - 1)) for i in range(k)])
    return (U * newS) @ Vh


def hpd(s, n, eps=0.1, tag=3):
    B = generic(s, (n, n), True, tag=tag)
    return B @ B.conj().T + eps * np.eye(n)


def unitary(s, n, tag=5):
    Q, R = np.linalg.qr(generic(s, (n, n), True, tag=tag))
    return Q


def cond(A):
    s = np.linalg.svd(np.atleast_2d(A), compute_uv=False)
    if s[-1] == 0:
        return math.inf
    return float(s[0] / s[-1])


def distinguishable(n, tag=0):
    """x_k = (1 + k/8) e^{j 0.7 k}: every position has its own value"""
    k = np.arange(n)
    return (1 + k / 8.0) * np.exp(1j * (0.7 * k + 2 * np.pi * common.seed_offset(tag)))
