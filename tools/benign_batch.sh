#!/bin/bash
# tools/benign_batch.sh PID [SRC_ROOT] [TAG]  - validate benign1..3 of one property, print one line each
pid=$1; src=${2:-/tmp/ben-$pid}; tag=${3:-}
for k in 1 2 3; do
  [ -f $src/benign$k/patch.diff ] || { echo "$pid-${tag}benign$k: no patch"; continue; }
  python3 /verif/tools/validate_benign.py $src/benign$k $pid $pid-${tag}benign$k 2>&1 | python3 -c "
import sys,json
t=sys.stdin.read()
try:
    d=json.loads(t[t.index('{'):])
    c=d['checks']
    print(d['name'],'baseline',d['baseline_ok'],'holds',d['holds_clean'],d['holds_patched'],'differs',d['differs_clean'],d['differs_patched'],'QUIET' if d['quiet'] else 'ALARM', {k:(v['exit'],v['signatures'][:4]) for k,v in c.items() if not v['quiet']})
except Exception as e: print('$pid-${tag}benign$k ERR',t[-400:])
"
done
