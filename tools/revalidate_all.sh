#!/bin/bash
# re-validates every filed seed against the current /repo HEAD and the current checks
cd "$(dirname "$0")/.."
for d in seeded/*/; do
  n=$(basename $d); pid=${n%%-*}
  [ -f $d/patch.diff ] || continue
  out=$(python3 tools/validate_seed.py $d $pid $n 2>&1)
  echo "$n $(echo "$out" | grep -E '^ "confirmed"|^ "detected"' | tr -d '\n')  $(echo "$out" | grep -c 'DOES NOT APPLY' | sed 's/1/PATCH-DOES-NOT-APPLY/; s/^0$//')"
done
