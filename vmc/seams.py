"""Seams: module-attribute patching, virtual clock, scripted random sources."""
import contextlib

import numpy as np

_MISSING = object()


@contextlib.contextmanager
def patched(*triples):
    """patched((module_or_obj, "attr", value), ...): set attributes, restore on exit.
    Works for names a module resolves from builtins too (e.g. `open`)."""
    saved = []
    try:
        for obj, name, val in triples:
            saved.append((obj, name, obj.__dict__.get(name, _MISSING)
                          if hasattr(obj, "__dict__") else getattr(obj, name, _MISSING)))
            setattr(obj, name, val)
        yield
    finally:
        for obj, name, old in reversed(saved):
            if old is _MISSING:
                try:
                    delattr(obj, name)
                except AttributeError:
                    pass
            else:
                setattr(obj, name, old)


class VirtualClock:
    """callable replacement for time.time; `advance` is called by the harness."""

    def __init__(self, t0=1.0e9, tick=0.001):
        self.t = t0
        self.tick = tick
        self.calls = 0

    def __call__(self):
        self.calls += 1
        self.t += self.tick
        return self.t

    def advance(self, dt):
        self.t += dt

    # usable where the library holds the MODULE (`import time; time.time()`) as well as where it
    # holds the function (`from time import time`)
    def time(self):
        return self()

    monotonic = perf_counter = time

    def time_ns(self):
        return int(self() * 1e9)

    monotonic_ns = perf_counter_ns = time_ns

    def installed(self, *modules, package="pyphysim"):
        """Own every clock reading of the library however it is spelt: time.time / monotonic /
        perf_counter (and the _ns variants) are replaced in the time module itself (covers
        `import time; time.time()`), and every name in a loaded module of `package` (plus the given
        modules) that is bound to one of those functions (covers `from time import time, monotonic`)
        is rebound to this clock."""
        import sys
        import time as _t
        names = ("time", "monotonic", "perf_counter", "time_ns", "monotonic_ns", "perf_counter_ns")
        real = {}
        for n in names:
            real[id(getattr(_t, n))] = n
        mods = list(modules)
        for name, m in list(sys.modules.items()):
            if m is not None and (name == package or name.startswith(package + ".")) and m not in mods:
                mods.append(m)
        triples = []
        for m in mods:
            for attr, val in list(vars(m).items()):
                n = real.get(id(val))
                if n is not None and getattr(_t, n) is val:
                    triples.append((m, attr, self if n == "time" else getattr(self, n)))
        triples += [(_t, n, self if n == "time" else getattr(self, n)) for n in names]
        return patched(*triples)


class ScriptedUniform:
    """replacement for numpy.random.random_sample / rand: answers come from
    `answer(label)` (an E2 choice point or a fixed cycle)."""

    def __init__(self, answer):
        self.answer = answer
        self.draws = 0

    def random_sample(self, size=None):
        if size is None:
            self.draws += 1
            return float(self.answer(self.draws))
        n = int(np.prod(size))
        out = np.empty(n)
        for i in range(n):
            self.draws += 1
            out[i] = self.answer(self.draws)
        return out.reshape(size)

    def rand(self, *shape):
        return self.random_sample(shape if shape else None)
