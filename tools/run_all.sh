#!/bin/bash
# tools/run_all.sh [quick|thorough] [PIDs...]   - runs checks sequentially, prints one line each
tier=${1:-quick}; shift
pids=${@:-C01 C02 C03 C04 C05 C06 C07 C08 C09 C10 C11 C12 C13 C14 C15 C16 C17 C18 C19 C20}
cd "$(dirname "$0")/.."
for p in $pids; do
  s=$(date +%s)
  out=$(./check $p --tier $tier 2>&1); rc=$?
  e=$(date +%s)
  echo "$p tier=$tier exit=$rc wall=$((e-s))s violations=$(echo "$out" | grep -c '^VIOLATION') known=$(echo "$out" | grep -c '^KNOWN-FINDING') :: $(echo "$out" | grep -E '^C[0-9]+ tier=' | cut -c1-260)"
  if [ $rc -ne 0 ]; then echo "$out" | grep -E "signature=|BROKEN|Error" | head -8; fi
done
