"""C10 - interference-alignment solvers return valid, power-limited, aligned
solutions, and the derived quantities stay coherent under the public setters.

Part E1 (product of configurations, every member executed on the real solvers)
    ClosedFormIASolver        K=3, (N,Ns) in {(2,1),(4,2)[,(6,3)]}, use_best_init x powers x channels
    AlternatingMin / MinLeakage / MaxSinr / MMSE
                              (K, Nr, Nt, Ns) table below (incl. Nt != Nr and unequal streams)
                              x initialize_with in {random(seeded), svd, closed_form, alt_min} where defined
                              x powers x max_iterations in {1,2,3,5,10,20} x channels of the generic family
    oracle per solve: ||F_k||_F = 1; ||full_F_k||^2 = P_k (MMSE: <= P_k); full_W_H[k] H_kk full_F[k] = I;
    Ns / shapes consistent; W = W_H^H; closed form: W_H[k] H_kl F_l = 0; equal powers, no noise:
    leakage L(F) = sum_k (sum of the Ns_k smallest eigenvalues of Q_k(full_F)) -- computed by the check
    from the public F and P only -- is non-increasing in the iteration count from the same initialisation,
    and equals get_cost() (AltMin always, MinLeakage for single streams).

    Long runs judged PER ITERATION (AltMin, MinLeakage; K >= 3, unequal stream counts, alignment infeasible):
    precoders set by hand, initialize_with='fix', max_iterations=1, 150 (thorough 400) solve() calls; the
    leakage must not increase at any step, and every MinLeakage step is compared with a first-principles
    optimum: the produced F[l] must reach the sum of the Ns_l least eigenvalues of the check's own reverse
    covariance R_l = sum_{k != l} H_kl^H (PI_k / Ns_k) H_kl built from the receive subspaces of the previous
    precoders (catches any wrong weighting of the interferers in a single step).

Part E3 (explicit-state BFS over setter histories after a solve)
    state = real solver object reached by `solve` followed by a history over 16 events
    (P=scalar/vector/None, set_precoders(F=array|list), set_precoders(full_F=,P=),
    set_receive_filters(W_H=array|list), set_receive_filters(W=), randomizeF (re-seeded), solve again,
    reads of full_F/full_W_H/full_W/W/W_H which populate caches); canonical key = digest of the whole
    object taken BEFORE the invariants read anything.  In every state all public views are compared with
    a reference model (F, P, W_H) maintained by the check: full_F = F sqrt(P), W = W_H^H,
    full_W_H[k] = (W_H[k] H_kk full_F[k])^-1 W_H[k] for the *observed* inputs (i.e. the identity
    relation), full_W = full_W_H^H, Ns from the precoder shapes; plus a fresh-solver differential.

Channel-side events (the solver is bound to ONE channel object that changes under it):
    init_from_channel_matrix(other member), randomize (seeded), set_pathloss(matrix / None), noise_var=...
    Between a channel change and the next solver-side call full_W_H / full_W are not judged (the solver is
    not told); after every solve all E1 relations are evaluated for the CURRENT effective channel (read
    block by block from an independent channel object brought to the same channel state) and the solution
    must equal that of a fresh solver bound to such a channel.
Aliasing: every array / list handed to a setter, the power vector and the channel's matrices must be
    bit-identical after the call; the caller then re-uses its buffers (list slots rebound, in-place scaling
    of the full_F matrices and of the P vector): the solver must not change.

Invalid calls (tools/INVALID_CALL_POLICY.md): in every distinct state a list of INVALID calls (P = 0 /
    negative / sequence with a zero / wrong length, set_precoders(), set_receive_filters() with neither / both,
    solve with an Ns of wrong length or a non-positive power, randomizeF with a non-positive power, unknown
    initialize_with) is made.  Whether a call raises and whether the object changes are recorded OUTCOMES.
    Required (property: "these relations keep holding after any later change ... through the public setters"):
    what the solver REPORTS afterwards (F, P, W_H read back) still satisfies full_F = F sqrt(P), ||F_k|| = 1,
    the power relation, W = W_H^H, the identity relation and Ns vs shapes; then P = 2.0 and a solve are judged
    as usual.
initialize_with='fix' (E1: precoders set by hand or left by an earlier solve with another power; E3: event
    `initialize_with = 'fix'` followed by solve(Ns, P0) / solve(Ns, other P) / solve(Ns)): all relations for the
    REQUESTED power, and equality with a fresh solver continued from the same precoders.
Several live objects: two solvers of one class (other channel member, other power) created together and used
    alternately must each end up identical (whole-object digest) to the same call sequence on a single object.

Randomness: no relation compares two solver objects that had to draw the same random numbers -- monotone
leakage is judged per iteration on ONE object driven through the public API (one solve from the case's own
initialisation, then initialize_with='fix' and max_iterations=1).  For reproducible runs (and for the E3
reference model of `solve` / `randomizeF`) the solver's random generator is re-seeded when it is reachable
through the tolerant `_private()` accessor; when it is not, the random events are left out and the outcome
`oracle_input_unavailable` is recorded.  Non-public attributes are never required: the channel a solver is
bound to is kept by the check itself; an exception raised by the check's own code ends as Broken.
"""
import collections
import contextlib
import math
import os
import traceback

import numpy as np

from vmc import bfs, common, families
from vmc.parallel import run_shards, shard
from vmc.report import Broken, Check

PID = "C10"
LEVEL = "model_checking"
ENGINE = ("E1 product of solver configurations + E3 explicit-state BFS over setter histories "
          "after a solve (whole-object digest as canonical key), incl. channel-side events, rejected calls "
          "and two live objects")
RULE = ("E1: every (solver, K, Nr, Nt, Ns, initialize_with, power, generic channel member) of the tables in "
        "the module x every max_iterations of {1,2,3,5,10,20}; a case is non-trivial when solve completed and "
        "distinct by its configuration tuple. E3: every history up to the depth bound over the 16-event "
        "alphabet from each base solve; states merged only when the digest of the entire real object "
        "(all attributes, caches, sub-solvers; taken before the invariants read any view) coincides; "
        "every transition is executed on the implementation and all 8 public views are compared with the "
        "reference model; the alphabet includes channel-side events (new realisation, path loss, noise) "
        "of the bound channel object, caller-side re-use of the buffers passed to the setters, "
        "initialize_with='fix' and solve with the base / another / no power; in every distinct state a list "
        "of invalid calls is made (raising / changing the object are outcomes) and the relations must hold "
        "on the state the solver reports afterwards; every history of length "
        "<= 2 is also run on two alternately used live objects")

EPS = 2.0 ** -52
UNIT_TOL = 1e-12            # | ||F_k||_F - 1 |
POWER_RTOL = 1e-11          # | ||full_F_k||^2 / P_k - 1 |  (all but MMSE)
MMSE_POWER_RTOL = 1e-6      # ||full_F_k||^2 <= P_k (1 + .): the library's Newton search stops at 1.5e-8
IDENT_C = 1e4               # identity / nulling: c * eps * kappa * scale
KAPPA_MAX = 1e8
COST_RTOL = 1e-9
COST_ATOL = 1e-12
VIEW_TOL = 1e-9             # E3 view comparison (stale / wrong values differ by O(1))

ITERS = (1, 2, 3, 5, 10, 20)
PVEC = (1.0, 2.0, 0.5, 1.5)
# powers span 16 decades (all relations are scale-covariant); mixed vectors per K
PDECADES = (1e-10, 1e-6, 1e-3, 1.0, 1e3, 1e6)
PMIX = (1e-6, 1e3, 1.0, 1e-10)
PMIX2 = (1e6, 1e-3, 1e-10, 1.0)
HSCALES = (1.0, 1e-4, 1e4)      # path loss makes real channels tiny


def members(tier):
    """(family member, channel scale factor) pairs"""
    if tier == "thorough":
        return [(s_, HSCALES[s_ % 3]) for s_ in range(9)] + [(0, 1e-4)]
    return [(0, 1.0), (1, 1e-4), (2, 1e4)]
ITERATIVE = ("AlternatingMinIASolver", "MinLeakageIASolver", "MaxSinrIASolver", "MMSEIASolver")

# (K, Nr, Nt, Ns)
CFGS_QUICK = [
    (3, [2, 2, 2], [2, 2, 2], 1),
    (2, [2, 2], [2, 2], 1),
    (2, [3, 3], [3, 3], 1),
    (3, [3, 3, 3], [3, 3, 3], 1),
    (2, [4, 4], [4, 4], 2),
    (3, [4, 4, 4], [4, 4, 4], 2),
    (2, [2, 3], [3, 2], 1),
    (3, [3, 2, 3], [2, 3, 3], 1),
    (3, [4, 4, 4], [4, 4, 4], [1, 2, 1]),
    (2, [6, 6], [6, 6], 3),
]
CFGS_THOROUGH = CFGS_QUICK + [
    (4, [3, 3, 3, 3], [3, 3, 3, 3], 1),
    (3, [5, 5, 5], [5, 5, 5], 2),
]


# ----------------------------------------------------------------------
# helpers
# ----------------------------------------------------------------------
SNR_CAP = 1e8


def effective_noise(noise, P, hscale, K):
    """MaxSinr / MMSE need invertible interference-plus-noise covariances.  `noise` is used as
    given (absolute) while max(P) hscale^2 / noise <= SNR_CAP; above that the matrices are
    numerically noise-free (= the zero-noise configurations on which these solvers are not
    defined), so the same *relative* noise level is used instead: noise * hscale^2 * max(P)."""
    if noise is None:
        return None
    rx = float(np.max(p_vec(P, K))) * float(hscale) ** 2
    return noise if rx <= SNR_CAP * noise else noise * rx


def make_channel(s, K, Nr, Nt, noise, hscale=1.0):
    from pyphysim.channels.multiuser import MultiUserChannelMatrix
    Nr = np.array(Nr, dtype=int)
    Nt = np.array(Nt, dtype=int)
    H = families.generic(int(s), (int(Nr.sum()), int(Nt.sum())), tag=10) * float(hscale)
    m = MultiUserChannelMatrix()
    m.init_from_channel_matrix(H.copy(), Nr, Nt, K)
    if noise is not None:
        m.noise_var = noise
    return m, H


def blocks(H, Nr, Nt):
    """own slicing of the big matrix (independent of get_Hkl)"""
    ro = np.concatenate([[0], np.cumsum(Nr)])
    co = np.concatenate([[0], np.cumsum(Nt)])

    def hkl(k, l):
        return H[ro[k]:ro[k + 1], co[l]:co[l + 1]]
    return hkl


def ns_vec(Ns, K):
    return [int(Ns)] * K if isinstance(Ns, int) else [int(x) for x in Ns]


def p_vec(P, K):
    if P is None:
        return np.ones(K)
    if isinstance(P, (int, float)):
        return np.ones(K) * float(P)
    return np.array([float(x) for x in P])


MISSING = object()


def _private(obj, *candidate_names, default=MISSING):
    """tolerant access to a NON-public attribute (an implementation detail the property does not
    promise): first existing candidate, else `default` -- never an AttributeError.  Callers skip
    the relation that needed it and record the outcome `oracle_input_unavailable`."""
    for nm in candidate_names:
        try:
            return object.__getattribute__(obj, nm)
        except Exception:  # noqa
            continue
    return default


_CHANNELS = collections.OrderedDict()      # id(solver) -> (solver, channel) for solvers built here


def channel_of(sv):
    """the channel object this check bound the solver to (kept by the check, never read back
    from the solver)"""
    ent = _CHANNELS.get(id(sv))
    if ent is None or ent[0] is not sv:
        raise Broken("channel of a solver that was not built by make_solver")
    return ent[1]


@contextlib.contextmanager
def guarded(chk, sig_prefix, case):
    """chk.guard, except that an exception raised by the check's OWN code (innermost frame of
    the traceback under the verification directory) is a broken check, never a verdict about
    the property"""
    with chk.guard(sig_prefix, case):
        try:
            yield
        except (KeyboardInterrupt, SystemExit, Broken):
            raise
        except BaseException as e:  # noqa
            tb = traceback.extract_tb(e.__traceback__)
            if tb and os.path.abspath(tb[-1].filename).startswith(common.VERIF_DIR + os.sep):
                raise Broken("the check's own code raised %s: %s at %s:%d" % (
                    type(e).__name__, e, os.path.basename(tb[-1].filename), tb[-1].lineno))
            raise


def own_rng(solver, seed):
    """re-seed the RandomState objects the solve / randomizeF path may draw from, so that runs
    of the check are reproducible.  The generators are implementation details: when one is not
    reachable nothing is seeded and False is returned -- no relation of the check depends on two
    solver objects drawing the same numbers except the E3 reference model, which then does
    without the random events (outcome oracle_input_unavailable)."""
    ok = False
    rs = _private(solver, "_rs")
    if rs is not MISSING and hasattr(rs, "seed"):
        rs.seed(int(seed))
        ok = True
    sub = _private(solver, "_alt_min_ia_solver", "_alt_min_initializer", default=None)
    rs2 = _private(sub, "_rs") if sub is not None else MISSING
    if rs2 is not MISSING and hasattr(rs2, "seed"):
        rs2.seed(int(seed) + 1)
    return ok


def make_solver(name, m, init=None, n=None, best=True):
    from pyphysim.ia import algorithms as A
    cls = getattr(A, name)
    if name == "ClosedFormIASolver":
        sv = cls(m, use_best_init=bool(best))
    else:
        sv = cls(m)
        if init is not None:
            sv.initialize_with = init
        if n is not None:
            sv.max_iterations = int(n)
    _CHANNELS[id(sv)] = (sv, m)
    while len(_CHANNELS) > 512:
        _CHANNELS.popitem(last=False)
    return sv


def exc_where(e):
    tb = traceback.extract_tb(e.__traceback__)
    for fr in reversed(tb):
        if "/pyphysim/" in fr.filename:
            return "%s:%s" % (os.path.basename(fr.filename), fr.name)
    if tb:
        return "%s:%s" % (os.path.basename(tb[-1].filename), tb[-1].name)
    return "?"


def as_list(v, K):
    """a per-user view -> list of K ndarrays, or None when it is not one"""
    try:
        if v is None or len(v) != K:
            return None
        out = [np.asarray(v[k]) for k in range(K)]
    except Exception:
        return None
    for a in out:
        if a.dtype == object or a.ndim != 2:
            return None
    return out


def obj_array(seq):
    a = np.empty(len(seq), dtype=object)
    for i, x in enumerate(seq):
        a[i] = x
    return a


def _scaled(o, seen=None):
    """replace every float array / scalar of an object graph by (decimal exponent of its
    largest magnitude, mantissas): bfs.digest rounds to absolute decimals, which would merge
    states that differ only in tiny-valued arrays (P = 1e-10, channels scaled by 1e-4)"""
    if seen is None:
        seen = {}
    if isinstance(o, np.ndarray):
        if o.dtype == object:
            return ["<objarr>", list(o.shape)] + [_scaled(e, seen) for e in o.ravel().tolist()]
        if o.dtype.kind in "fc" and o.size:
            fin = np.abs(o[np.isfinite(o)])
            m = float(fin.max()) if fin.size else 0.0
            if m > 0.0:
                e = int(math.floor(math.log10(m)))
                return ["<arr>", e, o / 10.0 ** e]
        return o
    if isinstance(o, (float, np.floating, complex, np.complexfloating)) and not isinstance(o, bool):
        m = abs(o)
        if m > 0.0 and math.isfinite(m):
            e = int(math.floor(math.log10(m)))
            return ["<num>", e, o / 10.0 ** e]
        return o
    if isinstance(o, (list, tuple)):
        return [_scaled(e, seen) for e in o]
    if isinstance(o, dict):
        return {k: _scaled(v, seen) for k, v in o.items()}
    if isinstance(o, np.random.RandomState) or o is None or isinstance(o, (str, bytes, int, bool, np.integer)):
        return o
    if hasattr(o, "__dict__") and not callable(o):
        if id(o) in seen:       # the channel object is shared by the solver and its sub-solvers
            return ["<same object as>", seen[id(o)]]
        seen[id(o)] = len(seen)
        return ["<obj>", type(o).__name__, {k: _scaled(v, seen) for k, v in bfs.state_of(o).items()}]
    return o


def sdigest(o, nd=9):
    return bfs.digest(_scaled(o), nd)


def maxabs(a):
    a = np.asarray(a)
    return float(np.max(np.abs(a))) if a.size else 0.0


def same(a, b, tol=VIEW_TOL):
    a = np.asarray(a)
    b = np.asarray(b)
    if a.shape != b.shape:
        return False
    if a.size == 0:
        return True
    d = np.abs(a - b)
    if not np.all(np.isfinite(d)):
        return False
    return float(d.max()) <= tol * max(maxabs(a), maxabs(b))      # relative: scale-covariant


def same_lists(A_, B_, tol=VIEW_TOL):
    if A_ is None or B_ is None or len(A_) != len(B_):
        return False
    return all(same(a, b, tol) for a, b in zip(A_, B_))


def shapes_of(v):
    try:
        return [tuple(np.shape(x)) for x in v]
    except Exception:
        return repr(type(v).__name__)


def leakage(FF, hkl, K, Ns, per_stream=False):
    """total interference power leaking into the best Ns_k-dimensional receive
    subspaces: sum_k (sum of the Ns_k smallest eigenvalues of Q_k).
    per_stream=True: every receiver's term divided by Ns_k = the leaked power seen through
    receive filters of unit Frobenius norm (orthonormal columns / sqrt(Ns_k)), which is what the
    minimum-leakage solver reports as W and what its two alternating steps both minimise; the two
    objectives differ only when the users have different stream counts"""
    tot = 0.0
    scale = 0.0
    for k in range(K):
        Nr_k = hkl(k, k).shape[0]
        Q = np.zeros((Nr_k, Nr_k), dtype=complex)
        for l in range(K):
            if l != k:
                A_ = hkl(k, l) @ FF[l]
                Q = Q + A_ @ A_.conj().T
        ev = np.linalg.eigvalsh((Q + Q.conj().T) / 2.0)
        w = 1.0 / Ns[k] if per_stream else 1.0
        tot += w * float(np.sum(np.sort(ev)[:Ns[k]]))
        scale += w * float(np.sum(np.abs(ev)))
    return tot, scale


def minleakage_step_optimality(Fin, Fout, P, hkl, K, Ns):
    """first-principles oracle for ONE minimum-leakage iteration started from the precoders Fin
    (equal powers).  The receive subspaces chosen for Fin are the Ns_k least-dominant
    eigenvectors of Q_k(Fin) (projector PI_k); with them fixed the precoder of user l must
    minimise the true leaked power  sum_{k != l} || W_k^H H_kl F_l ||^2,  W_k W_k^H = PI_k / Ns_k,
    i.e. tr(F_l^H R_l F_l) with R_l = sum_{k != l} H_kl^H (PI_k / Ns_k) H_kl  computed here from
    H only.  Returns a list of (l, achieved, optimum, scale) or None if an eigen-gap is too small
    for the subspace to be well defined."""
    PI = []
    for k in range(K):
        Nr_k = hkl(k, k).shape[0]
        Q = np.zeros((Nr_k, Nr_k), dtype=complex)
        for l in range(K):
            if l != k:
                A_ = hkl(k, l) @ Fin[l] * math.sqrt(P[l])
                Q = Q + A_ @ A_.conj().T
        ev, V = np.linalg.eigh((Q + Q.conj().T) / 2.0)
        if Ns[k] < Nr_k and not (ev[Ns[k]] - ev[Ns[k] - 1]) > 1e-7 * max(abs(ev[-1]), 1e-300):
            return None
        U = V[:, :Ns[k]]
        PI.append(U @ U.conj().T / Ns[k])
    out = []
    for l in range(K):
        Nt_l = hkl(l, l).shape[1]
        R = np.zeros((Nt_l, Nt_l), dtype=complex)
        for k in range(K):
            if k != l:
                R = R + hkl(k, l).conj().T @ PI[k] @ hkl(k, l)
        R = (R + R.conj().T) / 2.0
        ev = np.linalg.eigvalsh(R)
        opt = float(np.sum(ev[:Ns[l]])) / Ns[l]
        ach = float(np.real(np.trace(Fout[l].conj().T @ R @ Fout[l])))
        out.append((l, ach, opt, float(np.sum(np.abs(ev)))))
    return out


STEP_CFGS = [          # K >= 3, unequal stream counts among the interferers, alignment infeasible
    (3, [3, 3, 3], [3, 3, 3], [2, 1, 2]),
    (4, [4, 4, 4, 4], [4, 4, 4, 4], [3, 1, 2, 1]),
    (3, [4, 4, 4], [4, 4, 4], [3, 1, 2]),
]


def step_cases(tier):
    thorough = tier == "thorough"
    out = []
    for name in ITERATIVE[:2]:
        for (K, Nr, Nt, Ns) in STEP_CFGS:
            for P in ((1.0, 1e-6, 1e3) if thorough else (1.0,)):
                for (s, hs) in (members(tier) if thorough else members(tier)[:3]):
                    out.append(dict(part="E1", kind="steps", solver=name, K=K, Nr=list(Nr), Nt=list(Nt),
                                    Ns=list(Ns), P=P, noise=None, s=s, hscale=hs, best=None, init="fix",
                                    steps=400 if thorough else 150))
    return out


def run_steps_case(chk, case):
    """a long run judged PER ITERATION: precoders set by hand, initialize_with='fix',
    max_iterations=1, one solve() per iteration (public API only)"""
    name, K, Nr, Nt = case["solver"], case["K"], case["Nr"], case["Nt"]
    req = ns_vec(case["Ns"], K)
    ml = name == "MinLeakageIASolver"
    with guarded(chk, ("solve", name, "oracle"), case):
        m, H = make_channel(case["s"], K, Nr, Nt, None, case.get("hscale", 1.0))
        hkl = blocks(H, Nr, Nt)
        sv = make_solver(name, m, None, 1)
        own_rng(sv, 1000 + case["s"])
        Pv = p_vec(case["P"], K)
        Fin = []
        for k in range(K):
            a = families.generic(case["s"] + 95, (Nt[k], req[k]), tag=60 + k)
            Fin.append(a / np.linalg.norm(a))
        sv.set_precoders(F=obj_array([np.array(x) for x in Fin]), P=np.array(Pv))
        sv.initialize_with = "fix"
        sv.max_iterations = 1
        prev = None
        for it in range(1, case["steps"] + 1):
            sv.solve(list(case["Ns"]), case["P"])
            chk.count("eval_solves")
            F, FF = as_list(sv.F, K), as_list(sv.full_F, K)
            if F is None or FF is None or [f.shape for f in F] != [(Nt[k], req[k]) for k in range(K)]:
                chk.count("step_runs_ended_by_rank_reduction")
                break
            if it in (1, 2, 10, case["steps"]):
                check_solution(chk, sv, H, case, it)
            J, sc = leakage(FF, hkl, K, req, per_stream=(name == "MinLeakageIASolver"))
            if prev is not None:
                chk.count("eval_cost_steps")
                if J < prev * (1 - 1e-6):
                    chk.outcome("cost_strictly_decreased", (name, K, tuple(Nr), "steps"))
                if not J <= prev * (1 + COST_RTOL) + COST_ATOL * sc:
                    chk.fail(("solve", name, "leakage_increases"), dict(case, n=[it - 1, it]),
                             observed="J(%d)=%r -> J(%d)=%r (relative increase %.3g)"
                             % (it - 1, prev, it, J, J / prev - 1), expected="non-increasing")
                    break
            if it == case["steps"]:
                chk.outcome("residual_leakage_fraction", (name, K, tuple(req), round(math.log10(max(J / sc, 1e-30)))))
            prev = J
            if ml:
                r = minleakage_step_optimality(Fin, F, Pv, hkl, K, req)
                if r is None:
                    chk.count("excluded_step_oracle_small_eigen_gap")
                else:
                    chk.count("eval_step_optimality_relations", len(r))
                    for (l, ach, opt, scl) in r:
                        if not ach <= opt * (1 + 1e-8) + 1e-11 * scl:
                            chk.fail(("solve", name, "precoder_update_not_leakage_optimal"),
                                     dict(case, n=it, user=l),
                                     observed="leakage of the produced F[%d] through the fixed receive "
                                     "subspaces = %r" % (l, ach),
                                     expected="minimum %r (Ns least eigenvalues of the check's own reverse "
                                     "covariance)" % opt)
                            ml = False          # reported once; the run goes on for the monotonicity
                            break
            Fin = F
        chk.nontriv((name, K, tuple(Nr), tuple(req), "steps", repr(case["P"]), case["s"], case.get("hscale", 1.0)))


# ----------------------------------------------------------------------
# Part E1
# ----------------------------------------------------------------------
def e1_cases(tier):
    thorough = tier == "thorough"
    mem = members(tier)
    out = []
    # closed form
    cf = [(2, 1), (4, 2), (6, 3)]
    for (N, Ns) in cf:
        for best in (True, False):
            if N == 6 and best and not thorough:
                continue            # 20 initialisations per solve: thorough only
            for P in (None, 0.5) + PDECADES + (list(PMIX[:3]), list(PMIX2[:3])):
                for (s, hs) in mem:
                    out.append(dict(part="E1", solver="ClosedFormIASolver", K=3, Nr=[N] * 3, Nt=[N] * 3,
                                    Ns=Ns, best=best, init=None, P=P, noise=None, s=s, hscale=hs,
                                    iters=[None]))
    cfgs = CFGS_THOROUGH if thorough else CFGS_QUICK
    for name in ITERATIVE:
        noises = [None] if name in ITERATIVE[:2] else ([0.05, 1.0] if thorough else [0.05])
        for (K, Nr, Nt, Ns) in cfgs:
            for init in ("random", "svd", "closed_form", "alt_min"):
                if init == "alt_min" and (name == "AlternatingMinIASolver" or (K == 2 and not thorough)):
                    continue        # (quick: the alt_min start only for the K = 3 layouts)
                if init == "closed_form" and not (K == 3 and Nr == Nt and len(set(Nr)) == 1
                                                  and isinstance(Ns, int)):
                    continue
                powers = [x for x in PDECADES if thorough or x != 1e-3] + [list(PMIX[:K])] + \
                    ([None, list(PVEC[:K]), list(PMIX2[:K])] if thorough else [])
                for P in powers:
                    for noise in noises:
                        for mi, (s, hs) in enumerate(mem):
                            if noise == 1.0 and mi >= 3:
                                continue        # second noise level: first three members only
                            # quick: MaxSinr / MMSE (no cost sequence to follow) skip 3, 5 and 10
                            its = ITERS if (thorough or name in ITERATIVE[:2]) else (1, 2, 20)
                            iters = list(its)
                            out.append(dict(part="E1", solver=name, K=K, Nr=list(Nr), Nt=list(Nt), Ns=Ns,
                                            best=None, init=init, P=P, noise=noise, s=s, hscale=hs,
                                            iters=iters))
    # initialize_with='fix': precoders set manually first, or kept from an earlier solve;
    # the REQUESTED power (also: no power argument) must be the one in force afterwards
    for name in ITERATIVE:
        for (K, Nr, Nt, Ns) in cfgs:
            for init in ("fix_manual", "fix_after_solve"):
                for P in (1e-6, 1.0, 1e3, list(PMIX[:K]), list(PVEC[:K]), None):
                    for (s, hs) in (mem if thorough else mem[:1]):
                        out.append(dict(part="E1", solver=name, K=K, Nr=list(Nr), Nt=list(Nt), Ns=Ns,
                                        best=None, init=init, P=P,
                                        noise=None if name in ITERATIVE[:2] else 0.05, s=s, hscale=hs,
                                        iters=[2]))
    return out


def fix_precoders(case):
    K, Nt = case["K"], case["Nt"]
    Ns = ns_vec(case["Ns"], K)
    out = []
    for k in range(K):
        a = families.generic(case["s"] + 90, (Nt[k], Ns[k]), tag=50 + k)
        out.append(a / np.linalg.norm(a))
    return out


def solve_exception_sig(case, e):
    name = case["solver"]
    if case["init"] == "svd" and list(case["Nr"]) != list(case["Nt"]):
        return ("solve", "initialize_with=svd", "Nt!=Nr", "exception")
    names = [fr.name for fr in traceback.extract_tb(e.__traceback__)]
    if "_initialize_F_and_W_from_closed_form" in names and exc_where(e).endswith(":solve"):
        return ("solve", "initialize_with=closed_form", "exception", type(e).__name__, exc_where(e))
    multi = max(ns_vec(case["Ns"], case["K"])) > 1
    return ("solve", name, "Ns>1" if multi else "Ns=1", "exception", type(e).__name__, exc_where(e))


def check_solution(chk, sv, H, case, n):
    """all validity relations of one completed solve; returns full_F list or None"""
    name = case["solver"]
    K, Nr, Nt = case["K"], case["Nr"], case["Nt"]
    req = ns_vec(case["Ns"], K)
    Pv = p_vec(case["P"], K)
    hkl = blocks(H, Nr, Nt)
    c = dict(case, n=n)
    mmse = name == "MMSEIASolver"
    ok = True

    # --- stream counts / shapes
    Ns = sv.Ns
    F = as_list(sv.F, K)
    WH = as_list(sv.W_H, K)
    W = as_list(sv.W, K)
    FF = as_list(sv.full_F, K)
    FWH = as_list(sv.full_W_H, K)
    FW = as_list(sv.full_W, K)
    good = (Ns is not None and len(Ns) == K and None not in (F, WH, W, FF, FWH, FW))
    if good:
        Ns = [int(x) for x in Ns]
        for k in range(K):
            good = good and 1 <= Ns[k] <= req[k]
            good = good and F[k].shape == (Nt[k], Ns[k]) and FF[k].shape == (Nt[k], Ns[k])
            good = good and WH[k].shape == (Ns[k], Nr[k]) and FWH[k].shape == (Ns[k], Nr[k])
            good = good and W[k].shape == (Nr[k], Ns[k]) and FW[k].shape == (Nr[k], Ns[k])
    if not good:
        svd_asym = case["init"] == "svd" and list(Nr) != list(Nt)
        chk.fail(("solve", "initialize_with=svd", "Nt!=Nr", "Ns_vs_shapes") if svd_asym
                 else ("solve", name, "Ns_vs_shapes"), c,
                 observed="Ns=%r F=%r W_H=%r full_F=%r full_W_H=%r" % (
                     None if sv.Ns is None else list(sv.Ns), shapes_of(sv.F), shapes_of(sv.W_H),
                     shapes_of(sv.full_F), shapes_of(sv.full_W_H)),
                 expected="Ns<=%r, F_k (Nt_k,Ns_k), W_H_k (Ns_k,Nr_k)" % (req,))
        return None
    if Ns != req:
        chk.count("solves_with_rank_reduction")
        chk.outcome("rank_reduction", (name, tuple(Ns)))
    # --- P as reported
    if not same(np.asarray(sv.P, dtype=float), Pv, 4 * EPS):
        chk.fail(("solve", name, "P_reported"), c, observed=np.asarray(sv.P), expected=Pv)
        ok = False
    # --- W == W_H^H, full_W == full_W_H^H (exact copies)
    for k in range(K):
        if not np.array_equal(W[k], WH[k].conj().T):
            chk.fail(("solve", name, "W_vs_W_H"), c, observed=W[k], expected=WH[k].conj().T)
            ok = False
            break
        if not np.array_equal(FW[k], FWH[k].conj().T):
            chk.fail(("solve", name, "full_W_vs_full_W_H"), c, observed=FW[k], expected=FWH[k].conj().T)
            ok = False
            break
    multi = "Ns>1" if max(req) > 1 else "Ns=1"
    # --- unit norm
    unit = True
    for k in range(K):
        nf = float(np.linalg.norm(F[k]))
        if not abs(nf - 1.0) <= UNIT_TOL:
            chk.fail(("solve", name, "F_unit_norm", multi), dict(c, user=k), observed=nf, expected=1.0)
            unit = ok = False
            break
    # --- power (only meaningful when the precoders are unit norm)
    if unit:
        for k in range(K):
            p = float(np.linalg.norm(FF[k]) ** 2)
            if mmse:
                if not p <= Pv[k] * (1 + MMSE_POWER_RTOL):
                    chk.fail(("solve", name, "power", "exceeds"), dict(c, user=k), observed=p,
                             expected="<= %r" % Pv[k])
                    ok = False
                    break
                if p < Pv[k] * (1 - 1e-3):
                    chk.outcome("mmse_power_slack", (case["K"], tuple(Nr), k))
                # full_F parallel to F
                # (when _solve_finalize reduces the rank it discards, separately in F and in
                # full_F, directions whose relative singular value is below 1e-4)
                if not same(FF[k], F[k] * math.sqrt(p), 1e-9 if Ns == req else 1e-3):
                    chk.fail(("solve", name, "full_F_not_parallel_to_F"), dict(c, user=k),
                             observed=FF[k], expected=F[k] * math.sqrt(p))
                    ok = False
                    break
            else:
                if not abs(p / Pv[k] - 1.0) <= POWER_RTOL:
                    chk.fail(("solve", name, "power", "exceeds" if p > Pv[k] else "below"),
                             dict(c, user=k), observed=p, expected=Pv[k])
                    ok = False
                    break
                if not same(FF[k], F[k] * math.sqrt(Pv[k]), 1e-12):
                    chk.fail(("solve", name, "full_F_vs_F_sqrtP"), dict(c, user=k),
                             observed=FF[k], expected=F[k] * math.sqrt(Pv[k]))
                    ok = False
                    break
    # --- identity
    for k in range(K):
        Heq = WH[k] @ hkl(k, k) @ FF[k]
        kap = families.cond(Heq)
        if not kap <= KAPPA_MAX:
            chk.count("excluded_identity_kappa>1e8")
            continue
        chk.count("eval_identity_relations")
        I = FWH[k] @ hkl(k, k) @ FF[k]
        if not maxabs(I - np.eye(Ns[k])) <= IDENT_C * EPS * kap:
            chk.fail(("solve", name, "identity"), dict(c, user=k), observed=I, expected="I(%d)" % Ns[k],
                     msg="kappa=%.3g" % kap)
            ok = False
            break
    # --- closed form: perfect nulling
    if name == "ClosedFormIASolver":
        kap = 1.0
        for (a, b) in ((2, 0), (0, 1), (1, 2), (2, 1)):
            kap *= families.cond(hkl(a, b))
        if kap <= KAPPA_MAX:
            for k in range(K):
                for l in range(K):
                    if l != k:
                        chk.count("eval_nulling_relations")
                        X = WH[k] @ hkl(k, l) @ F[l]
                        r = maxabs(X) / (np.linalg.norm(WH[k], 2) * np.linalg.norm(hkl(k, l), 2))
                        if not r <= IDENT_C * EPS * kap:
                            chk.fail(("solve", name, "nulling"), dict(c, k=k, l=l), observed=X, expected=0,
                                     msg="kappa=%.3g" % kap)
                            ok = False
        else:
            chk.count("excluded_nulling_kappa>1e8")
    if ok:
        chk.count("solves_all_relations_hold")
    return FF


def run_e1_case(chk, case):
    if case.get("kind") == "steps":
        return run_steps_case(chk, case)
    name = case["solver"]
    K, Nr, Nt = case["K"], case["Nr"], case["Nt"]
    req = ns_vec(case["Ns"], K)
    with guarded(chk, ("solve", name, "oracle"), case):
        key = (name, K, tuple(Nr), tuple(Nt), tuple(req), case["init"], case["best"],
               repr(case["P"]), case["noise"], case["s"], case.get("hscale", 1.0))
        for n in case["iters"]:
            hs = case.get("hscale", 1.0)
            noise = effective_noise(case["noise"], case["P"], hs, K)
            if noise != case["noise"]:
                chk.count("solves_with_relative_noise_above_snr_cap")
            m, H = make_channel(case["s"], K, Nr, Nt, noise, hs)
            fix = str(case["init"]).startswith("fix")
            sv = make_solver(name, m, None if fix else case["init"], n, case["best"])
            if name != "ClosedFormIASolver":
                own_rng(sv, 1000 + case["s"])
            Ns_arg = case["Ns"] if isinstance(case["Ns"], int) else list(case["Ns"])
            if fix:
                # the precoders exist before the call: set by hand, or left by an earlier solve with
                # ANOTHER power (1.5); then initialize_with='fix' and solve with the requested one
                if case["init"] == "fix_manual":
                    sv.set_precoders(F=obj_array(fix_precoders(case)))
                else:
                    sv.solve(Ns_arg, 1.5)
                sv.initialize_with = "fix"
            chk.count("eval_solves")
            try:
                ret = sv.solve(Ns_arg, case["P"])
            except Exception as e:  # noqa
                chk.outcome("solve_result", (name, case["init"], "exception"))
                chk.fail(solve_exception_sig(case, e), dict(case, n=n),
                         observed="%s: %s" % (type(e).__name__, e), expected="solve completes",
                         msg="raised in %s" % exc_where(e))
                continue
            chk.outcome("solve_result", (name, case["init"], "completed"))
            chk.outcome("configuration", (name, K, tuple(Nr), tuple(Nt), tuple(req), case["init"]))
            chk.nontriv(key)
            if name != "ClosedFormIASolver":
                chk.outcome("iterations_run", (n, int(ret)))
                if ret != sv.runned_iterations or not (1 <= ret <= n or fix):
                    chk.fail(("solve", name, "returned_iterations"), dict(case, n=n), observed=ret,
                             expected="1..%d" % n)
            FF = check_solution(chk, sv, H, case, n)
            # get_cost() agrees with the leakage oracle at every checkpoint
            equal_p = len(set(p_vec(case["P"], K).tolist())) == 1
            if (name in ITERATIVE[:2] and equal_p and not case["noise"] and FF is not None
                    and [f.shape[1] for f in FF] == req):
                L, sc = leakage(FF, blocks(H, Nr, Nt), K, req, per_stream=(name == "MinLeakageIASolver"))
                c = float(np.real(sv.get_cost()))
                if not abs(L - c) <= 1e-8 * max(abs(L), abs(c)) + 1e-11 * sc:
                    chk.fail(("solve", name, "get_cost_vs_leakage"), dict(case, n=n), observed=c,
                             expected=L, msg="get_cost() vs the eigenvalue sums of the check's own Q_k")
        # --- monotone leakage, judged per iteration on ONE object through the public API only
        equal_p = len(set(p_vec(case["P"], K).tolist())) == 1
        if name in ITERATIVE[:2] and equal_p and not case["noise"] and not str(case["init"]).startswith("fix"):
            continuation_run(chk, case)


def continuation_run(chk, case, steps=20):
    """one solver object: one iteration from the case's own initialisation (random / svd /
    closed_form / alt_min), then initialize_with='fix' and max_iterations=1, i.e. every further
    solve() performs exactly one more iteration from the current precoders.  Nothing is compared
    across objects, so no random generator has to be controlled."""
    name, K, Nr, Nt = case["solver"], case["K"], case["Nr"], case["Nt"]
    req = ns_vec(case["Ns"], K)
    hs = case.get("hscale", 1.0)
    m, H = make_channel(case["s"], K, Nr, Nt, None, hs)
    hkl = blocks(H, Nr, Nt)
    sv = make_solver(name, m, case["init"], 1, case["best"])
    own_rng(sv, 1000 + case["s"])
    Ns_arg = case["Ns"] if isinstance(case["Ns"], int) else list(case["Ns"])
    chk.count("eval_cost_sequences")
    prev = None
    for it in range(1, steps + 1):
        try:
            sv.solve(Ns_arg, case["P"])
        except Exception as e:  # noqa
            if it == 1:
                return          # reported by the checkpoint loop already
            chk.fail(("solve", name, "continuation", "exception", type(e).__name__, exc_where(e)),
                     dict(case, n=it), observed="%s: %s" % (type(e).__name__, e),
                     expected="one more iteration with initialize_with='fix'")
            return
        chk.count("eval_solves")
        if it == 1:
            sv.initialize_with = "fix"
        FF = as_list(sv.full_F, K)
        if FF is None or [f.shape for f in FF] != [(Nt[k], req[k]) for k in range(K)]:
            chk.count("continuation_runs_ended_by_rank_reduction")
            return
        L, sc = leakage(FF, hkl, K, req, per_stream=(name == "MinLeakageIASolver"))
        c = float(np.real(sv.get_cost()))
        if prev is not None:
            chk.count("eval_cost_steps")
            L0, c0 = prev
            if L < L0 * (1 - 1e-6) - COST_ATOL * sc:
                chk.outcome("cost_strictly_decreased", (name, K, tuple(Nr), case["init"]))
            if not L <= L0 * (1 + COST_RTOL) + COST_ATOL * sc:
                chk.fail(("solve", name, "leakage_increases"), dict(case, n=[it - 1, it]),
                         observed="L(%d)=%r -> L(%d)=%r" % (it - 1, L0, it, L), expected="non-increasing")
                return
            if not c <= c0 * (1 + COST_RTOL) + COST_ATOL * sc:
                chk.fail(("solve", name, "get_cost_increases"), dict(case, n=[it - 1, it]),
                         observed="cost(%d)=%r -> cost(%d)=%r" % (it - 1, c0, it, c),
                         expected="non-increasing")
                return
        prev = (L, c)


# ----------------------------------------------------------------------
# Part E3
# ----------------------------------------------------------------------
def e3_bases(tier):
    b = [
        dict(solver="ClosedFormIASolver", K=3, Nr=[2, 2, 2], Nt=[2, 2, 2], Ns=1, init=None, n=None,
             P0=None, noise=None),
        dict(solver="AlternatingMinIASolver", K=3, Nr=[2, 2, 2], Nt=[2, 2, 2], Ns=1, init="random", n=3,
             P0=1.5, noise=None),
        dict(solver="MaxSinrIASolver", K=2, Nr=[3, 3], Nt=[3, 3], Ns=1, init="svd", n=2, P0=None,
             noise=0.05, hscale=1e4),
        dict(solver="MMSEIASolver", K=2, Nr=[2, 2], Nt=[2, 2], Ns=1, init="random", n=2, P0=4.0,
             noise=0.05),
        dict(solver="AlternatingMinIASolver", K=2, Nr=[6, 6], Nt=[6, 6], Ns=3, init="svd", n=2,
             P0=[1.0, 2.0], noise=None, hscale=1e-4),
        dict(solver="ClosedFormIASolver", K=3, Nr=[4, 4, 4], Nt=[4, 4, 4], Ns=2, init=None, n=None,
             P0=1e-6, noise=None, best=False),
        dict(solver="MinLeakageIASolver", K=3, Nr=[2, 2, 2], Nt=[2, 2, 2], Ns=1, init="closed_form", n=2,
             P0=1.0, noise=None),
    ]
    if tier != "thorough":
        # quick: every base but the second AltMin one (AltMin: the Ns=3 base)
        return [dict(x, part="E3", s=0) for i, x in enumerate(b) if i != 1]
    out = [dict(x, part="E3", s=0) for x in b]
    out += [dict(x, part="E3", s=1) for x in b[:2]]      # second channel member: two small bases
    return out


READS = ("full_F", "full_W_H", "full_W", "W", "W_H")
# channel-side events: the solver is NOT told; they matter at the next solve / solver setter
CHAN_EVENTS_QUICK = [("chan", "init", 1), ("chan", "rand", 11), ("chan", "pl", "mat"), ("chan", "noise", 0.2)]
EVENTS_QUICK = ([("read", r) for r in READS] +
                [("P", 1e-10), ("P", 1e6), ("P", "vec"), ("P", None),
                 ("setF", "array"), ("setF", "list"), ("setFF_P", "array"), ("setFF_P", "mutate_after"),
                 ("setWH", "array"), ("setW", "array"),
                 ("randF", 5), ("solve", 0), ("solve", "P2"), ("initwith", "fix")] + CHAN_EVENTS_QUICK)
# every public call form of set_precoders (F / full_F / P keywords) x value regime: 'full' = the
# scaled precoders use all the power, 'backoff' = ||full_F[k]||^2 < P[k].  (F alone and full_F+P at
# full power are the setF / setFF_P events above.)  Not taken as the last event of a history.
FORM_EVENTS_QUICK = [("setPC", "F+P", "full"), ("setPC", "F+fullF", "backoff"), ("setPC", "fullF", "backoff"),
                     ("setPC", "fullF+P", "backoff"), ("setPC", "F+fullF+P", "backoff")]
FORM_EVENTS_MORE = [("setPC", "F+fullF", "full"), ("setPC", "fullF", "full"), ("setPC", "F+fullF+P", "full")]
BACKOFF = (0.8, 0.35, 0.6, 0.5)
EVENTS_QUICK += FORM_EVENTS_QUICK
EVENTS_QUICK.remove(("read", "W_H"))      # (reading full_W_H populates the W_H cache as well)
EVENTS = EVENTS_QUICK + [("read", "W_H"), ("setWH", "list"), ("chan", "pl", None),
                         ("solve", "noP")] + FORM_EVENTS_MORE      # thorough
PV_SOLVE2 = (3.0, 1e-3, 40.0)


def events(tier, solver=None):
    evs = EVENTS if tier == "thorough" else EVENTS_QUICK
    if solver == "ClosedFormIASolver":
        evs = [e for e in evs if e[0] != "initwith"]
    return evs


def solve_power(base, variant):
    """the power argument of the solve event variants: 0 -> the base power, 'P2' -> another
    vector, 'noP' -> solve is called without a power (documented: 1 for every user)"""
    if variant == "P2":
        return list(PV_SOLVE2[:base["K"]])
    if variant == "noP":
        return None
    P0 = base["P0"]
    return list(P0) if isinstance(P0, (list, tuple)) else P0


PLM = ((0.5, 1e-2, 1e-1), (1e-3, 0.2, 1e-2), (1e-1, 1e-3, 1.0))      # linear path loss, decades apart


class InputMutated(Exception):
    """a caller-owned input (or the channel's matrices) was modified by the library"""

    def __init__(self, what):
        Exception.__init__(self, what)
        self.what = what


def _unchanged(what, passed, pristine):
    for a, b in zip(passed, pristine):
        if not (np.shape(a) == np.shape(b) and np.array_equal(np.asarray(a), np.asarray(b))):
            raise InputMutated(what)


def chan_snapshot(m):
    pl = m.pathloss
    return (np.array(m.big_H), None if pl is None else np.array(pl), m.noise_var,
            np.array(m.Nr), np.array(m.Nt), m.K)


def chan_unchanged(m, snap, what):
    now = chan_snapshot(m)
    for a, b in zip(now, snap):
        if (a is None) != (b is None) or (a is not None and not np.array_equal(np.asarray(a), np.asarray(b))):
            raise InputMutated(what)


def apply_chan_event(m, ev, base):
    K, Nr, Nt = base["K"], np.array(base["Nr"], dtype=int), np.array(base["Nt"], dtype=int)
    if ev[1] == "init":
        H2 = families.generic(int(base["s"]) + 7 * int(ev[2]), (int(Nr.sum()), int(Nt.sum())), tag=10) \
            * float(base.get("hscale", 1.0))
        keep = np.array(H2)
        m.init_from_channel_matrix(H2, Nr, Nt, K)
        _unchanged("init_from_channel_matrix(channel_matrix)", [H2], [keep])
    elif ev[1] == "rand":
        m.set_channel_seed(int(ev[2]) + int(base["s"]))
        m.randomize(Nr, Nt, K)
    elif ev[1] == "pl":
        if ev[2] is None:
            m.set_pathloss(None)
        else:
            PL = np.array([row[:K] for row in PLM[:K]], dtype=float)
            keep = np.array(PL)
            m.set_pathloss(PL)
            _unchanged("set_pathloss(pathloss_matrix)", [PL], [keep])
    elif ev[1] == "noise":
        m.noise_var = float(ev[2])
    else:
        raise ValueError("unknown channel event %r" % (ev,))


def evkind(ev):
    if ev is None:
        return "solve"
    t = ev[0]
    if t == "P":
        return "P="
    if t in ("setF", "setFF_P", "setPC"):
        return "set_precoders"
    if t in ("setWH", "setW"):
        return "set_receive_filters"
    if t == "randF":
        return "randomizeF"
    if t == "solve":
        return "solve"
    if t == "chan":
        return "channel:" + str(ev[1])
    if t == "initwith":
        return "initialize_with="
    return "read"


def payload(base, what):
    """deterministic precoders / filters handed to the setters (fresh arrays every call)"""
    K, Nr, Nt = base["K"], base["Nr"], base["Nt"]
    Ns = ns_vec(base["Ns"], K)
    s = base["s"]
    out = []
    for k in range(K):
        if what == "F":
            a = families.generic(s + 50, (Nt[k], Ns[k]), tag=20 + k)
            a = a / np.linalg.norm(a)
        elif what == "WH":
            a = families.generic(s + 60, (Ns[k], Nr[k]), tag=30 + k)
        else:
            a = families.generic(s + 70, (Nr[k], Ns[k]), tag=40 + k)
        out.append(np.array(a))
    return out


PV_EVENT = (1e-6, 1e3, 1.0)
PV_SETFF = (1e-8, 3.0, 1e4)


def e3_solve(sv, base, variant=0):
    if base["solver"] != "ClosedFormIASolver":
        own_rng(sv, 77 + base["s"])
    Parg = solve_power(base, variant)
    snap = chan_snapshot(channel_of(sv))
    if variant == "noP":
        sv.solve(base["Ns"])
    else:
        sv.solve(base["Ns"], Parg)
    chan_unchanged(channel_of(sv), snap, "solve modifies the channel object")
    if isinstance(Parg, list):
        _unchanged("solve(P)", [Parg], [solve_power(base, variant)])


def apply_event(sv, ev, base):
    K = base["K"]
    t = ev[0]
    if t == "read":
        getattr(sv, ev[1])
    elif t == "P":
        if ev[1] == "vec":
            pv = list(PV_EVENT[:K])
            sv.P = pv
            _unchanged("P = <list>", [pv], [list(PV_EVENT[:K])])
            pv[0] = 99.0                      # the caller re-uses its list afterwards
        else:
            sv.P = ev[1]
    elif t == "setF":
        F = payload(base, "F")
        arg = F if ev[1] == "list" else obj_array(F)
        sv.set_precoders(F=arg)
        _unchanged("set_precoders(F)", list(arg), payload(base, "F"))
        if ev[1] == "list":
            F[0] = F[0] * 2.0                 # the caller re-uses its list afterwards
    elif t == "setFF_P":
        F = payload(base, "F")
        Pv = np.array(PV_SETFF[:K])
        X = obj_array([F[k] * math.sqrt(Pv[k]) for k in range(K)])
        keep = [np.array(x) for x in X]
        sv.set_precoders(full_F=X, P=Pv)
        _unchanged("set_precoders(full_F)", list(X), keep)
        _unchanged("set_precoders(P)", [Pv], [np.array(PV_SETFF[:K])])
        if ev[1] == "mutate_after":           # the caller re-uses its buffers afterwards (in place)
            X[0] *= 2.0
            Pv *= 9.0
    elif t == "setPC":
        tokens = ev[1].split("+")
        F = payload(base, "F")
        Pv = np.array(PV_SETFF[:K])
        Pref = Pv if "P" in tokens else np.asarray(sv.P, dtype=float)      # the power in force
        beta = BACKOFF[:K] if ev[2] == "backoff" else (1.0,) * K
        X = obj_array([F[k] * math.sqrt(beta[k] * Pref[k]) for k in range(K)])
        keepX = [np.array(x) for x in X]
        kw = {}
        if "F" in tokens:
            kw["F"] = obj_array(F)
        if "fullF" in tokens:
            kw["full_F"] = X
        if "P" in tokens:
            kw["P"] = Pv
        sv.set_precoders(**kw)
        _unchanged("set_precoders(F)", F, payload(base, "F"))
        _unchanged("set_precoders(full_F)", list(X), keepX)
        _unchanged("set_precoders(P)", [Pv], [np.array(PV_SETFF[:K])])
    elif t == "setWH":
        X = payload(base, "WH")
        arg = X if ev[1] == "list" else obj_array(X)
        sv.set_receive_filters(W_H=arg)
        _unchanged("set_receive_filters(W_H)", list(arg), payload(base, "WH"))
        if ev[1] == "list":
            X[0] = X[0] * 2.0
    elif t == "setW":
        arg = obj_array(payload(base, "W"))
        sv.set_receive_filters(W=arg)
        _unchanged("set_receive_filters(W)", list(arg), payload(base, "W"))
    elif t == "chan":
        apply_chan_event(channel_of(sv), ev, base)
    elif t == "randF":
        own_rng(sv, 500 + ev[1] + base["s"])
        sv.randomizeF(base["Ns"] if isinstance(base["Ns"], int) else list(base["Ns"]))
    elif t == "solve":
        e3_solve(sv, base, ev[1])
    elif t == "initwith":
        sv.initialize_with = ev[1]
    else:
        raise ValueError("unknown event %r" % (ev,))


class E3Job:
    """one BFS: a base solve + all histories up to `depth`"""

    def __init__(self, chk, base, depth):
        self.chk, self.base, self.depth = chk, base, depth
        self.K = base["K"]
        self.memo = {}          # hist -> dict(failing={view: (kind, digest)}, obs={view: digest})
        self._fresh = {}
        self._rnd = None
        self._heff = {}
        self.events = events(chk.tier, base["solver"])
        # the random initialisation / randomizeF can only be modelled when the solver's random
        # generator is reachable (an implementation detail): otherwise those parts are left out
        probe = self.new_solver()
        self.rng_ok = base["solver"] == "ClosedFormIASolver" or own_rng(probe, 1)
        if not self.rng_ok:
            chk.outcome("oracle_input_unavailable", ("solver random generator", base["solver"]))
            chk.count("e3_jobs_without_random_events")
            self.events = [e for e in self.events if e[0] != "randF"]
            if base["init"] == "random":
                self.base = base = dict(base, init="svd")
        self._err_done = set()
        self._diff_done = set()

    # ---- real object ---------------------------------------------------
    def new_solver(self, chan=()):
        """fresh solver bound to a fresh channel object brought to the channel state `chan`
        (the exact sequence of channel events, replayed in order)"""
        b = self.base
        m, _ = make_channel(b["s"], b["K"], b["Nr"], b["Nt"], b["noise"], b.get("hscale", 1.0))
        for ev in chan:
            apply_chan_event(m, ev, b)
        return make_solver(b["solver"], m, b["init"], b["n"], b.get("best", True))

    def heff(self, chan):
        """effective channel (path loss included) of the channel state, read block by block
        from an independent channel object; returns (block accessor, big matrix)"""
        if chan not in self._heff:
            b = self.base
            m, _ = make_channel(b["s"], b["K"], b["Nr"], b["Nt"], b["noise"], b.get("hscale", 1.0))
            for ev in chan:
                apply_chan_event(m, ev, b)
            K = self.K
            big = np.block([[np.array(m.get_Hkl(k, l)) for l in range(K)] for k in range(K)])
            self._heff[chan] = (blocks(big, b["Nr"], b["Nt"]), big)
        return self._heff[chan]

    def build(self, hist):
        st = dict(solver=None, error=None, digest=None, hist=hist)
        try:
            sv = self.new_solver()
            st["solver"] = sv
            st["failed_event"] = None
            e3_solve(sv, self.base)
            for ev in hist:
                st["failed_event"] = ev
                apply_event(sv, ev, self.base)
            st["failed_event"] = None
            st["digest"] = sdigest(sv, 9)
            # evidence only (which caches are populated); implementation details, read tolerantly
            vals = [_private(sv, a) for a in ("_F", "_full_F", "_W", "_W_H", "_full_W_H", "_full_W", "_P")]
            st["caches"] = ("unavailable",) if all(v is MISSING for v in vals) else \
                tuple(i for i, v in enumerate(vals) if v is not MISSING and v is not None)
        except Exception as e:  # noqa
            st["error"] = e
            st["digest"] = ("error", hist)
        return st

    # ---- reference model -------------------------------------------------
    def fresh(self, chan=(), variant=0, fixF=None):
        """what `solve` / `randomizeF` produce on a fresh object bound to a channel in the
        state `chan` (memoised); with initialize_with='fix' the solve continues from `fixF`"""
        # (exact bits: an ill-conditioned continuation amplifies even 1e-16 input differences)
        key = (chan, variant, None if fixF is None else
               tuple(np.ascontiguousarray(x).tobytes() for x in fixF))
        if key not in self._fresh:
            K = self.K
            sv = self.new_solver(chan)
            if fixF is not None:
                sv.set_precoders(F=obj_array([np.array(x) for x in fixF]))
                sv.initialize_with = "fix"
            e3_solve(sv, self.base, variant)
            sol = dict(F=[np.array(x) for x in as_list(sv.F, K)],
                       WH=[np.array(x) for x in as_list(sv.W_H, K)],
                       P=np.array(sv.P, dtype=float),
                       FFx=[np.array(x) for x in as_list(sv.full_F, K)]
                       if self.base["solver"] == "MMSEIASolver" else None,
                       FFalt=None, Flist=False, chan=chan, dirty=False, alias=None,
                       init=None, solved=variant)
            if self._rnd is None:
                sv2 = self.new_solver()
                own_rng(sv2, 500 + 5 + self.base["s"])
                sv2.randomizeF(self.base["Ns"])
                self._rnd = [np.array(x) for x in as_list(sv2.F, K)]
            self._fresh[key] = (sol, self._rnd)
        return self._fresh[key]

    def model(self, hist):
        sol, rnd = self.fresh()
        K = self.K
        md = dict(sol)
        for ev in hist:
            md = dict(md)
            t = ev[0]
            if t == "chan":
                md["chan"] = md["chan"] + (ev,)
                md["dirty"] = True          # derived receive filters legitimately outdated
                continue
            if t == "initwith":
                md["init"] = ev[1]          # configuration only: nothing is recomputed
                continue
            if t != "read":
                md["dirty"] = False         # every solver-side mutator recomputes them on demand
                md["alias"] = None
            if t == "P":
                md["P"] = (np.ones(K) if ev[1] is None else
                           np.array(PV_EVENT[:K]) if ev[1] == "vec" else np.ones(K) * float(ev[1]))
                if md["FFx"] is not None:
                    # explicit (MMSE / user supplied) full_F: after a power change the exact
                    # F sqrt(P) is expected; the old one is tolerated while it respects the new power
                    old = md["FFx"]
                    okp = all(np.linalg.norm(old[k]) ** 2 <= md["P"][k] * (1 + MMSE_POWER_RTOL)
                              for k in range(K))
                    md["FFalt"] = old if (okp and self.base["solver"] == "MMSEIASolver") else None
                    md["FFx"] = None
            elif t == "setF":
                md["F"] = payload(self.base, "F")
                md["FFx"] = md["FFalt"] = None
                md["Flist"] = ev[1] == "list"
            elif t == "setFF_P":
                F = payload(self.base, "F")
                Pv = np.array(PV_SETFF[:K])
                md["FFx"] = [F[k] * math.sqrt(Pv[k]) for k in range(K)]
                md["F"] = [x / np.linalg.norm(x) for x in md["FFx"]]
                md["P"] = Pv
                md["FFalt"] = None
                md["Flist"] = False
                if ev[1] == "mutate_after":
                    md["alias"] = dict(P=Pv * 9.0, FF0=md["FFx"][0] * 2.0)
            elif t == "setPC":
                tokens = ev[1].split("+")
                F = payload(self.base, "F")
                Pnew = np.array(PV_SETFF[:K]) if "P" in tokens else np.array(md["P"], dtype=float)
                beta = BACKOFF[:K] if ev[2] == "backoff" else (1.0,) * K
                X = [F[k] * math.sqrt(beta[k] * Pnew[k]) for k in range(K)]
                md["P"] = Pnew
                if "fullF" in tokens:
                    # what was PASSED IN: full_F as given; F as given, else full_F with unit norm
                    md["FFx"] = X
                    md["F"] = F if "F" in tokens else [x / np.linalg.norm(x) for x in X]
                else:
                    md["FFx"] = None
                    md["F"] = F
                md["FFalt"] = None
                md["Flist"] = False
            elif t == "setWH":
                md["WH"] = payload(self.base, "WH")
            elif t == "setW":
                md["WH"] = [x.conj().T for x in payload(self.base, "W")]
            elif t == "randF":
                md["F"] = [np.array(x) for x in rnd]
                md["P"] = np.ones(K)
                md["FFx"] = md["FFalt"] = None
                md["Flist"] = False
            elif t == "solve":
                init = md["init"]
                md = dict(self.fresh(md["chan"], ev[1], md["F"] if init == "fix" else None)[0])
                md["init"] = init
        md["FF"] = md["FFx"] if md["FFx"] is not None else [md["F"][k] * math.sqrt(md["P"][k])
                                                            for k in range(K)]
        return md

    # ---- invariants --------------------------------------------------------
    def evaluate(self, hist, st=None):
        """compare all views of the state with the model; report the failures that
        are NEW with respect to the prefix history (attributed to the last event)"""
        if hist in self.memo:
            return self.memo[hist]
        chk, K = self.chk, self.K
        prev = None
        if len(hist) > 0:
            prev = self.memo.get(hist[:-1]) or self.evaluate(hist[:-1])
        if st is None:
            st = self.build(hist)
        ev = hist[-1] if hist else None
        case = dict(part="E3", base=self.base, history=[list(e) for e in hist])
        rec = dict(failing={}, obs={})
        self.memo[hist] = rec
        chk.count("eval_states_checked")
        if st["error"] is not None:
            e = st["error"]
            bad = st.get("failed_event")
            if isinstance(e, InputMutated):
                sig = (evkind(bad) if bad is not None else "solve", "mutates_caller_input", e.what)
            elif bad is not None and bad[0] == "read":
                # a view that cannot even be read: attributed to the last mutator (or to the
                # list-valued precoders that make full_F malformed)
                muts = [x for x in hist[:-1] if x[0] != "read"]
                cause = "set_precoders(F=list)" if self.model(hist[:-1])["Flist"] else \
                    evkind(muts[-1] if muts else None)
                where = exc_where(e).split(":")[-1]      # the property that actually raised
                view = where if where in ("F", "P", "Ns", "W", "W_H", "full_F", "full_W_H", "full_W") \
                    else bad[1]
                sig = (view, "exception:" + type(e).__name__, "after", cause)
            else:
                sig = (evkind(bad) if bad is not None else "solve", "exception", type(e).__name__,
                       exc_where(e))
            chk.fail(sig, case, observed="%s: %s" % (type(e).__name__, e), expected="completes")
            rec["failing"]["<event>"] = ("exception", repr(hist))
            return rec
        sv = st["solver"]
        chk.outcome("cache_population", st["caches"])
        md = self.model(hist)
        hkl, Hbig = self.heff(md["chan"])
        if md["chan"]:
            chk.outcome("channel_state", tuple(e[1] for e in md["chan"]) + (md["dirty"],))
        # ---- after a solve: every E1 relation for the CURRENT channel
        if ev is None or ev[0] == "solve":
            b = self.base
            chk.count("eval_e3_post_solve_relation_sets")
            check_solution(chk, sv, Hbig, dict(case, solver=b["solver"], K=K, Nr=b["Nr"], Nt=b["Nt"],
                                               Ns=b["Ns"], P=solve_power(b, md["solved"]),
                                               init=md["init"] or b["init"]), b["n"])
        # ---- read every public view (this populates caches: digest was taken before)
        obs = {}
        for v in ("F", "P", "Ns", "W_H", "W", "full_F", "full_W_H", "full_W"):
            try:
                obs[v] = ("ok", getattr(sv, v))
            except Exception as e:  # noqa
                obs[v] = ("exc", "%s@%s" % (type(e).__name__, exc_where(e)))
        chk.count("eval_view_comparisons", len(obs))
        lists = {v: (as_list(obs[v][1], K) if obs[v][0] == "ok" else None)
                 for v in ("F", "W_H", "W", "full_F", "full_W_H", "full_W")}
        for v in obs:
            if obs[v][0] != "ok":
                rec["obs"][v] = obs[v][1]
            elif v in lists:
                rec["obs"][v] = sdigest(lists[v], 8) if lists[v] is not None else \
                    "shape:" + repr(shapes_of(obs[v][1]))
            else:
                rec["obs"][v] = sdigest(np.asarray(obs[v][1]), 8)
        bad = {}          # view -> (kind, observed, expected)

        def flag(v, kind, o, x, cause=None, silent=False):
            bad[v] = (kind, o, x, cause, silent)

        def stale_or(v, kind):
            if prev is not None and prev["obs"].get(v) == rec["obs"].get(v):
                return "stale"
            return kind

        for v in obs:
            if obs[v][0] == "exc":
                flag(v, "exception:" + obs[v][1], obs[v][1], "readable")
        # F, P, Ns, W_H against the model
        if "F" not in bad:
            if lists["F"] is None or [x.shape for x in lists["F"]] != [x.shape for x in md["F"]]:
                flag("F", "wrong_shape", shapes_of(obs["F"][1]), [x.shape for x in md["F"]])
            elif not same_lists(lists["F"], md["F"]):
                flag("F", stale_or("F", "wrong_value"), lists["F"][0], md["F"][0])
        if "P" not in bad:
            Po = np.asarray(obs["P"][1])
            if Po.shape != (K,) or Po.dtype == object:
                flag("P", "wrong_shape", repr(obs["P"][1]), md["P"])
            elif not same(Po.astype(float), md["P"], 4 * EPS):
                al = md["alias"] is not None and same(Po.astype(float), md["alias"]["P"], 4 * EPS)
                flag("P", "aliases_caller_input" if al else stale_or("P", "wrong_value"), Po, md["P"])
        if "Ns" not in bad:
            want = [x.shape[1] for x in md["F"]]
            try:
                got = [int(x) for x in obs["Ns"][1]]
            except Exception:
                got = repr(obs["Ns"][1])
            if got != want:
                flag("Ns", stale_or("Ns", "wrong_value"), got, want)
        if "W_H" not in bad:
            if lists["W_H"] is None or [x.shape for x in lists["W_H"]] != [x.shape for x in md["WH"]]:
                flag("W_H", "wrong_shape", shapes_of(obs["W_H"][1]), [x.shape for x in md["WH"]])
            elif not same_lists(lists["W_H"], md["WH"]):
                conseq = ev is not None and ev[0] == "solve" and "F" in bad
                if conseq:
                    chk.count("consequential_W_H_of_a_different_solution_not_reported")
                flag("W_H", "wrong_value" if conseq else stale_or("W_H", "wrong_value"),
                     lists["W_H"][0], md["WH"][0], silent=conseq)
        # W against the OBSERVED W_H (model when that one is unusable)
        if "W" not in bad:
            ref = lists["W_H"] if lists["W_H"] is not None else md["WH"]
            want = [x.conj().T for x in ref]
            if lists["W"] is None or [x.shape for x in lists["W"]] != [x.shape for x in want]:
                flag("W", "wrong_shape", shapes_of(obs["W"][1]), [x.shape for x in want])
            elif not same_lists(lists["W"], want):
                flag("W", stale_or("W", "inconsistent_with_W_H"), lists["W"][0], want[0])
        # full_F against the model
        if "full_F" not in bad:
            want = md["FF"]
            cause = "set_precoders(F=list)" if md["Flist"] else None
            if ("F" in bad or "P" in bad) and lists["F"] is not None and "P" in obs and obs["P"][0] == "ok" \
                    and np.shape(obs["P"][1]) == (K,) and md["FFx"] is None:
                # F / P already reported: full_F is judged against the observed F and P
                want = [lists["F"][k] * math.sqrt(float(obs["P"][1][k])) for k in range(K)]
            if lists["full_F"] is None or [x.shape for x in lists["full_F"]] != [x.shape for x in want]:
                flag("full_F", "wrong_shape", "%s %r" % (type(obs["full_F"][1]).__name__,
                                                        tuple(np.shape(obs["full_F"][1]))),
                     "%d precoders of shapes %r" % (K, [x.shape for x in want]), cause)
            elif not same_lists(lists["full_F"], want):
                if md["FFalt"] is not None and same_lists(lists["full_F"], md["FFalt"]):
                    chk.count("tolerated_mmse_full_F_kept_within_new_power")
                else:
                    kind = stale_or("full_F", "wrong_value")
                    if md["alias"] is not None and same(lists["full_F"][0], md["alias"]["FF0"]):
                        kind = "aliases_caller_input"
                    flag("full_F", kind, lists["full_F"][0], want[0], cause if kind != "stale" else None)
        # full_W_H against ITS OBSERVED inputs  (== the identity relation)
        usable = ("full_F" not in bad or bad["full_F"][0] != "wrong_shape") and lists["full_F"] is not None \
            and lists["W_H"] is not None and "full_F" in obs and obs["full_F"][0] == "ok"
        if md["dirty"]:
            # between a channel change and the next solver-side call the solver has not been told
            bad.pop("full_W_H", None)
            bad.pop("full_W", None)
            chk.count("full_W_H_not_judged_between_channel_change_and_next_solver_call")
        elif "full_W_H" in bad and not usable:
            del bad["full_W_H"]          # consequence of the malformed full_F
            bad.pop("full_W", None)
            chk.count("consequential_full_W_H_not_evaluated")
        elif "full_W_H" not in bad:
            if not usable:
                chk.count("consequential_full_W_H_not_evaluated")
            else:
                want, kmax = [], 1.0
                try:
                    for k in range(K):
                        Heq = lists["W_H"][k] @ hkl(k, k) @ lists["full_F"][k]
                        kmax = max(kmax, families.cond(Heq))
                        want.append(np.linalg.solve(Heq, lists["W_H"][k]))
                except Exception:
                    want = None
                if want is None or not kmax <= 1e6:
                    chk.count("excluded_e3_equivalent_channel_kappa>1e6")
                elif lists["full_W_H"] is None or \
                        [x.shape for x in lists["full_W_H"]] != [x.shape for x in want]:
                    flag("full_W_H", "wrong_shape", shapes_of(obs["full_W_H"][1]), [x.shape for x in want])
                elif not same_lists(lists["full_W_H"], want, VIEW_TOL * kmax):
                    flag("full_W_H", stale_or("full_W_H", "inconsistent_with_full_F_and_W_H"),
                         lists["full_W_H"][0], want[0])
        if "full_W" not in bad and "full_W_H" in obs and obs["full_W_H"][0] == "ok" \
                and lists["full_W_H"] is not None and not md["dirty"]:
            want = [x.conj().T for x in lists["full_W_H"]]
            if lists["full_W"] is None or [x.shape for x in lists["full_W"]] != [x.shape for x in want]:
                flag("full_W", "wrong_shape", shapes_of(obs["full_W"][1]), [x.shape for x in want])
            elif not same_lists(lists["full_W"], want):
                flag("full_W", stale_or("full_W", "inconsistent_with_full_W_H"), lists["full_W"][0], want[0])
        # ---- report what is new relative to the prefix
        for v, (kind, o, x, cause, silent) in bad.items():
            rec["failing"][v] = (kind, rec["obs"].get(v))
            if silent:
                continue
            if prev is not None and v in prev["failing"] and (
                    prev["failing"][v][0] == kind or prev["failing"][v][1] == rec["obs"].get(v)):
                chk.count("persisting_failures_not_re_reported")
                continue
            chk.fail((v, kind, "after", cause or evkind(ev)), case, observed=o, expected=x,
                     msg="view %s of %s after history %r" % (v, self.base["solver"], [list(e) for e in hist]))
        if not bad:
            chk.count("states_all_views_coherent")
        # ---- fresh-solver differential: the library on a fresh object agrees with the model
        dkey = (md["chan"], md["FFx"] is not None) + tuple(
            np.ascontiguousarray(x).tobytes() for x in list(md["F"]) + list(md["WH"]) + [md["P"]] +
            (list(md["FFx"]) if md["FFx"] is not None else []))
        if not md["Flist"] and dkey not in self._diff_done:     # (once per distinct model state)
            self._diff_done.add(dkey)
            f = self.new_solver(md["chan"])
            if md["FFx"] is not None:
                f.set_precoders(full_F=obj_array([np.array(x) for x in md["FFx"]]), P=np.array(md["P"]))
            else:
                f.set_precoders(F=obj_array([np.array(x) for x in md["F"]]), P=np.array(md["P"]))
            f.set_receive_filters(W_H=obj_array([np.array(x) for x in md["WH"]]))
            chk.count("eval_fresh_solver_differentials")
            if not same_lists(as_list(f.full_F, K), md["FF"]):
                chk.fail(("fresh_solver", "full_F", "differs_from_model"), case,
                         observed=as_list(f.full_F, K), expected=md["FF"])
            if not same_lists(as_list(f.W, K), [x.conj().T for x in md["WH"]]):
                chk.fail(("fresh_solver", "W", "differs_from_model"), case)
            try:
                kmax = 1.0
                want = []
                for k in range(K):
                    Heq = md["WH"][k] @ hkl(k, k) @ md["FF"][k]
                    kmax = max(kmax, families.cond(Heq))
                    want.append(np.linalg.solve(Heq, md["WH"][k]))
                if kmax <= 1e6 and not same_lists(as_list(f.full_W_H, K), want, VIEW_TOL * kmax):
                    chk.fail(("fresh_solver", "full_W_H", "differs_from_model"), case,
                             observed=as_list(f.full_W_H, K), expected=want)
            except np.linalg.LinAlgError:
                chk.count("excluded_e3_equivalent_channel_kappa>1e6")
        # ---- invalid calls (tools/INVALID_CALL_POLICY.md): what the call does is an OUTCOME; what the
        # solver REPORTS afterwards must still satisfy every relation of the property
        if st["digest"] not in self._err_done and not bad:
            self._err_done.add(st["digest"])
            self.error_paths(sv, case, md, hkl)
        return rec

    def _invalid_calls(self, sv):
        K, b = self.K, self.base
        Ns = b["Ns"] if isinstance(b["Ns"], int) else list(b["Ns"])
        F = payload(b, "W")
        calls = [
            ("P=<non-positive scalar>", lambda: setattr(sv, "P", 0.0)),
            ("P=<non-positive scalar>", lambda: setattr(sv, "P", -1.5)),
            ("P=<sequence with a non-positive entry>", lambda: setattr(sv, "P", [2.0, 0.0, 1.0][:K])),
            ("P=<sequence of wrong length>", lambda: setattr(sv, "P", [1.0] * (K + 1))),
            ("set_precoders()", lambda: sv.set_precoders()),
            ("set_receive_filters()", lambda: sv.set_receive_filters()),
            ("set_receive_filters(W=,W_H=)",
             lambda: sv.set_receive_filters(W=obj_array(F), W_H=obj_array([x.conj().T for x in F]))),
            ("solve(<Ns of wrong length>)", lambda: sv.solve([1] * (K + 1), 1.0)),
            ("solve(P<=0)", lambda: sv.solve(Ns, -1.0)),
            ("randomizeF(P<=0)", lambda: sv.randomizeF(Ns, -1.0)),
        ]
        if b["solver"] != "ClosedFormIASolver":
            calls.append(("initialize_with=<unknown>", lambda: setattr(sv, "initialize_with", "bogus")))
        return calls

    def reported_relations(self, sv, md, hkl, unit_before):
        """the relations of the property evaluated on what the solver REPORTS (F, P, W_H as read
        from the object, not the reference model); returns the names of the failing relations.
        Relations whose inputs are not reported (None) are vacuous."""
        K = self.K
        try:
            Fv, Pv, WHv, Nsv = sv.F, sv.P, sv.W_H, sv.Ns
        except Exception as e:  # noqa
            return ["reported_state_unreadable:" + type(e).__name__]
        F, WH = as_list(Fv, K), as_list(WHv, K)
        fails = []
        P = None
        try:
            P = np.asarray(Pv, dtype=float)
            if P.shape != (K,):
                fails.append("P_shape")
                P = None
        except Exception:  # noqa
            fails.append("P_shape")
        if Fv is not None and F is None:
            fails.append("F_shape")
        if F is not None:
            try:
                if [int(x) for x in Nsv] != [x.shape[1] for x in F]:
                    fails.append("Ns_vs_shapes")
            except Exception:  # noqa
                fails.append("Ns_vs_shapes")
            if unit_before and any(not abs(np.linalg.norm(x) - 1.0) <= UNIT_TOL for x in F):
                fails.append("F_unit_norm")
        FF = None
        if F is not None and P is not None:
            try:
                FF = as_list(sv.full_F, K)
            except Exception as e:  # noqa
                fails.append("full_F_unreadable:" + type(e).__name__)
            if FF is None and not fails:
                fails.append("full_F_shape")
            if FF is not None:
                relaxed = md["FFx"] is not None or md["FFalt"] is not None or \
                    self.base["solver"] == "MMSEIASolver"
                for k in range(K):
                    p = float(np.linalg.norm(FF[k]) ** 2)
                    exact = same(FF[k], F[k] * math.sqrt(P[k]), 1e-12) if P[k] >= 0 else False
                    if exact:
                        continue
                    if relaxed and P[k] > 0 and p <= P[k] * (1 + MMSE_POWER_RTOL) and \
                            same(FF[k], F[k] * math.sqrt(p), 1e-6):
                        continue
                    fails.append("power" if p > max(P[k], 0.0) * (1 + MMSE_POWER_RTOL)
                                 else "full_F_vs_F_sqrtP")
                    break
        if WH is not None:
            try:
                W = as_list(sv.W, K)
                if W is None or not all(np.array_equal(W[k], WH[k].conj().T) for k in range(K)):
                    fails.append("W_vs_W_H")
            except Exception as e:  # noqa
                fails.append("W_unreadable:" + type(e).__name__)
        if WH is not None and FF is not None and not md["dirty"] and \
                all(WH[k].shape[0] == FF[k].shape[1] for k in range(K)):
            try:
                FWH = as_list(sv.full_W_H, K)
                FW = as_list(sv.full_W, K)
            except Exception as e:  # noqa
                fails.append("full_W_H_unreadable:" + type(e).__name__)
                FWH = None
            if FWH is not None:
                for k in range(K):
                    Heq = WH[k] @ hkl(k, k) @ FF[k]
                    kap = families.cond(Heq)
                    if not kap <= 1e6:
                        continue
                    I = FWH[k] @ hkl(k, k) @ FF[k]
                    if I.shape != (FF[k].shape[1],) * 2 or \
                            not maxabs(I - np.eye(I.shape[0])) <= IDENT_C * EPS * kap:
                        fails.append("identity")
                        break
                if FW is None or not all(np.array_equal(FW[k], FWH[k].conj().T) for k in range(K)):
                    fails.append("full_W_vs_full_W_H")
        return fails

    def error_paths(self, sv, case, md, hkl):
        chk, K, b = self.chk, self.K, self.base
        calls = self._invalid_calls(sv)

        def whole():
            seen = {id(channel_of(sv)): 0}
            return bfs.digest(_scaled(dict(bfs.state_of(sv)), seen), 9)

        NAMES = ("_F", "_full_F", "_W", "_W_H", "_full_W_H", "_full_W", "_P", "_Ns", "_initialize_with",
                 "_runned_iterations", "max_iterations", "_mu", "_C")

        def fingerprint():
            # cheap (identity / small values): tells after WHICH call the object changed
            out = {}
            for nm in NAMES:
                v = getattr(sv, nm, None)
                if isinstance(v, np.ndarray) and v.dtype != object and v.size <= 8:
                    out[nm] = v.tobytes()
                elif isinstance(v, (int, float, str)) or v is None:
                    out[nm] = v
                else:
                    out[nm] = id(v)
            return out

        try:
            unit_before = all(abs(np.linalg.norm(x) - 1.0) <= UNIT_TOL for x in as_list(sv.F, K))
        except Exception:  # noqa
            unit_before = False

        def judge(what):
            """coherence of the REPORTED state after the invalid call `what`"""
            chk.count("eval_reported_state_after_invalid_call")
            for rel in self.reported_relations(sv, md, hkl, unit_before):
                chk.fail(("after_invalid_call", what, rel.split(":")[0]), dict(case, invalid_call=what),
                         observed="relation %s fails on the reported state (P=%r)" % (rel, _safe_P(sv)),
                         expected="every relation of the property holds for what the solver reports")
                return False
            return True

        d0 = whole()
        fp = fingerprint()
        changed_any, coherent = False, True
        for what, call in calls:
            chk.count("eval_invalid_calls")
            try:
                call()
                how = "accepted"
            except Exception as e:  # noqa
                how = "raised:" + type(e).__name__
            fp2 = fingerprint()
            changed = fp2 != fp
            fp = fp2
            chk.outcome("invalid_call", (what, how, "object_changed" if changed else "object_unchanged"))
            if changed or how == "accepted":
                changed_any = True
                coherent = judge(what) and coherent
        if not changed_any and whole() != d0:
            changed_any = True
            chk.outcome("invalid_call", ("<some invalid call>", "?", "object_changed"))
            coherent = judge("<some invalid call>")
        if changed_any and coherent:
            # subsequent VALID calls are judged as usual on the object as it is now
            try:
                sv.P = 2.0
                ok = judge("<then P=2.0>")
                if ok and as_list(sv.F, K) is not None:
                    e3_solve(sv, b, 0)
                    hk, Hbig = self.heff(md["chan"])
                    check_solution(chk, sv, Hbig,
                                   dict(case, solver=b["solver"], K=K, Nr=b["Nr"], Nt=b["Nt"], Ns=b["Ns"],
                                        P=solve_power(b, 0), init=md["init"] or b["init"],
                                        after_invalid_calls=True), b["n"])
                    judge("<then solve>")
            except Exception as e:  # noqa
                chk.fail(("after_invalid_call", "<then valid calls>", "exception", type(e).__name__,
                          exc_where(e)), case, observed="%s: %s" % (type(e).__name__, e),
                         expected="valid calls keep working")

    # ---- BFS plumbing ------------------------------------------------------
    def run(self):
        chk = self.chk
        job = self

        def build(hist):
            return job.build(tuple(hist))

        def enabled(hist, st):
            if st["error"] is not None:
                return []
            # a getter read twice with no mutator in between is the same state (idempotent): pruned
            recent = set()
            for e in reversed(hist):
                if e[0] != "read":
                    break
                recent.add(e)
            evs = [e for e in job.events if e not in recent]
            # channel events per history: at most one (quick) / two (thorough)
            if sum(1 for e in hist if e[0] == "chan") >= (2 if chk.tier == "thorough" else 1):
                evs = [e for e in evs if e[0] != "chan"]
            if len(hist) == job.depth - 1:
                # last position of a history: a read (the invariants read every view anyway), a channel
                # change (nothing is judged before the next solver-side call) or a configuration
                # switch cannot show anything the prefix state does not show
                evs = [e for e in evs if e[0] not in ("read", "chan", "initwith", "setPC")]
            return evs

        def invariant(hist, st):
            case = dict(part="E3", base=job.base, history=[list(e) for e in hist])
            with guarded(chk, ("history", "oracle"), case):
                job.evaluate(tuple(hist), st)
            if len(hist) >= 2:
                chk.nontriv((job.base["solver"], job.base["s"], st["digest"]))

        def canon(hist, st):
            return st["digest"]

        # the machinery must be deterministic: same history twice -> same object
        probe = (("read", "full_W_H"), ("P", 2.0), ("setF", "array"))
        d1, d2 = self.build(probe)["digest"], self.build(probe)["digest"]
        if d1 != d2:
            raise Broken("E3 build is not deterministic for %r" % (self.base,))
        b = bfs.BFS(chk, build, enabled, invariant, canon, self.depth,
                    label="%s/s%d" % (self.base["solver"], self.base["s"]))
        b.run([()])
        return b


def run_e3_job(chk, base, depth):
    E3Job(chk, base, depth).run()


# ----------------------------------------------------------------------
# several live objects: two solvers of one class used alternately must not influence each other
# ----------------------------------------------------------------------
TWIN_EVENTS = [("read", "full_W_H"), ("P", "vec"), ("setF", "array"), ("setFF_P", "array"),
               ("setWH", "array"), ("randF", 5), ("solve", 0), ("solve", "P2"), ("initwith", "fix")]


def twin_cases(tier):
    out = []
    for b in e3_bases(tier):
        if b["s"] == 0:
            out.append(dict(part="TW", base=b))
    return out


def _attr_digests(sv):
    seen = {}
    return {k: bfs.digest(_scaled(v, seen), 9) for k, v in bfs.state_of(sv).items()}


def run_twin_case(chk, case):
    A = dict(case["base"])
    B = dict(A, s=A["s"] + 3, P0=2.5)         # same class and layout, other channel, other power
    evs = [e for e in TWIN_EVENTS if not (A["solver"] == "ClosedFormIASolver" and e[0] == "initwith")]
    n = len(evs)

    def fresh(b):
        m, _ = make_channel(b["s"], b["K"], b["Nr"], b["Nt"], b["noise"], b.get("hscale", 1.0))
        return make_solver(b["solver"], m, b["init"], b["n"], b.get("best", True))

    if A["solver"] != "ClosedFormIASolver" and not own_rng(fresh(A), 1):
        # the random generator is not reachable: only deterministic calls can be compared
        chk.outcome("oracle_input_unavailable", ("solver random generator", A["solver"]))
        evs = [e for e in evs if e[0] != "randF"]
        if A["init"] == "random":
            A, B = dict(A, init="svd"), dict(B, init="svd")
        n = len(evs)
    hists = [()] + [(e,) for e in evs] + [(e, f) for e in evs for f in evs]
    with guarded(chk, ("two_live_objects", A["solver"], "oracle"), case):
        for hist in hists:
            c = dict(case, history=[list(e) for e in hist])
            other = tuple(evs[(evs.index(e) + 4) % n] for e in hist)   # what B does in between
            # --- each object alone
            a = fresh(A)
            e3_solve(a, A)
            for e in hist:
                apply_event(a, e, A)
            b_ = fresh(B)
            e3_solve(b_, B)
            for e in other:
                apply_event(b_, e, B)
            # --- both alive, used alternately
            a2, b2 = fresh(A), fresh(B)
            e3_solve(b2, B)
            e3_solve(a2, A)
            for e, f in zip(hist, other):
                apply_event(b2, f, B)
                apply_event(a2, e, A)
            chk.count("eval_two_live_object_histories")
            for who, solo, twin in (("first", a, a2), ("second", b_, b2)):
                if sdigest(solo, 9) != sdigest(twin, 9):
                    d0, d1 = _attr_digests(solo), _attr_digests(twin)
                    changed = sorted(k for k in set(d0) | set(d1) if d0.get(k) != d1.get(k))
                    chk.fail(("two_live_objects", A["solver"], "differs_from_the_object_used_alone"), c,
                             observed="%s object: attributes %s differ" % (who, ", ".join(changed)),
                             expected="identical to the same call sequence on a single live object")
            if hist:
                chk.nontriv(("twin", A["solver"], A["K"], hist))


def all_jobs(tier):
    depth = 4 if tier == "thorough" else 3
    jobs = [("E3", b, depth) for b in e3_bases(tier)]
    jobs += [("TW", c, None) for c in twin_cases(tier)]
    jobs += [("E1", c, None) for c in step_cases(tier)]
    jobs += [("E1", c, None) for c in e1_cases(tier)]
    return jobs


def main(chk: Check):
    tier = chk.tier
    chk.assume("MaxSinr / MMSE are exercised with noise_var in {0.05, 1.0}: with zero noise their covariance "
               "matrices are singular for several (K, N, Ns) of the table, i.e. the solver is not defined there")
    chk.assume("monotone leakage is judged per iteration on one solver object driven through the public API "
               "(one solve from the case's initialisation, then initialize_with='fix', max_iterations=1); the "
               "step from the initial precoders to the first iterate is not judged (a random multi-stream "
               "start is outside the set the algorithms minimise over)")
    chk.assume("monotone leakage is required for equal powers and noise-free channels only (as stated)")
    chk.assume("leaked power of the minimum-leakage solver is measured through the unit-Frobenius-norm receive "
               "filters it reports (each receiver's eigenvalue sum divided by its stream count); for equal "
               "stream counts this is the plain total up to a constant factor")
    chk.assume("E3: a full_F that an MMSE solve produced (norm below sqrt(P)) may be kept after a power change "
               "as long as it respects the new power; otherwise full_F = F sqrt(P) is required exactly")
    chk.assume("E3: between a channel-side change and the next solver-side call (solve or a setter) the "
               "cached full_W_H / full_W are not judged: the solver is not told about channel changes")
    chk.assume("E3 pruning: a getter read twice with no mutator in between is the same state; at most one "
               "(quick) / two (thorough) channel events per history")
    chk.assume("E3 pruning: reads, channel changes and initialize_with switches are not taken as the LAST event "
               "of a maximal-length history (they only matter through a later solver-side call)")
    chk.assume("E3: the additional call forms of set_precoders (F+P, F+full_F, full_F, full_F+P, F+full_F+P; "
               "full power / backed off) are taken at every position of a history but the last")
    chk.assume("max_iterations = 0 is outside the enumerated alphabet (only used to observe the initial cost)")
    chk.extra.update(dict(UNIT_TOL=UNIT_TOL, POWER_RTOL=POWER_RTOL, MMSE_POWER_RTOL=MMSE_POWER_RTOL,
                          IDENT_C=IDENT_C, KAPPA_MAX=KAPPA_MAX, COST_RTOL=COST_RTOL, COST_ATOL=COST_ATOL,
                          VIEW_TOL=VIEW_TOL, e3_depth=4 if tier == "thorough" else 3,
                          e3_events=len(events(tier)), e3_bases=len(e3_bases(tier)),
                          e1_cases=len(e1_cases(tier))))
    jobs = all_jobs(tier)

    e3 = [j for j in jobs if j[0] == "E3"]
    e1 = [j for j in jobs if j[0] != "E3"]

    def worker(i, n, c):
        # E3 jobs are long: one per shard; shards without one take a triple share of E1
        for kind, job, depth in shard(iter(e3), i, n):
            run_e3_job(c, job, depth)
        slots = []
        for sh in range(n):
            slots += [sh] * (1 if sh < len(e3) else 3)
        for j, (kind, job, depth) in enumerate(e1):
            if slots[j % len(slots)] == i:
                (run_twin_case if kind == "TW" else run_e1_case)(c, job)

    run_shards(chk, worker, common.ncores())
    chk.sample(jobs[0][1])
    chk.sample(jobs[-1][1])
    if ("unavailable",) not in chk.outcomes.get("cache_population", ()):
        chk.require_outcomes("cache_population", 8)
    chk.require_outcomes("channel_state", 8)
    chk.require_outcomes("configuration", 40)
    chk.require_outcomes("iterations_run", 6)
    chk.require_outcomes("cost_strictly_decreased", 4)


def _safe_P(sv):
    try:
        return np.asarray(sv.P).tolist()
    except Exception as e:  # noqa
        return "unreadable: %s" % type(e).__name__


def _tuplify(h):
    return tuple(tuple(e) for e in h)


def replay(case, chk: Check):
    if case.get("part") == "TW":
        run_twin_case(chk, dict(part="TW", base=dict(case["base"])))
    elif case.get("part") == "E3":
        base = dict(case["base"])
        hist = _tuplify(case["history"])
        job = E3Job(chk, base, len(hist))
        with guarded(chk, ("history", "oracle"), case):
            job.evaluate(hist)
    else:
        c = dict(case)
        n = c.pop("n", None)
        c.pop("user", None)
        c.pop("k", None)
        c.pop("l", None)
        run_e1_case(chk, c)
