"""Deterministic sharding over forked workers.

`run_shards(chk, worker, nshards)` forks `nshards` processes; worker
`worker(i, n, child_chk)` handles the cases `i, i+n, i+2n, ...` of the SAME
enumeration (helper `shard(iterable, i, n)`), so the union is the full space.
Child states are absorbed into `chk`.  A worker dying abnormally aborts the
check as broken.
"""
import itertools
import multiprocessing as mp
import os
import pickle
import traceback

from . import common
from .report import Broken


def shard(iterable, i, n):
    return itertools.islice(iterable, i, None, n)


def _run(worker, i, n, child, conn):
    try:
        worker(i, n, child)
        conn.send(("ok", pickle.dumps(child.state())))
    except Broken as e:
        conn.send(("broken", str(e)))
    except BaseException as e:  # noqa
        conn.send(("err", "".join(traceback.format_exception(type(e), e, e.__traceback__))))
    finally:
        conn.close()


def run_shards(chk, worker, nshards=None):
    if nshards is None:
        nshards = common.ncores() if chk.tier == "thorough" else min(8, common.ncores())
    env_n = os.environ.get("VERIF_SHARDS")
    if env_n:
        nshards = max(1, int(env_n))
    if nshards <= 1:
        child = chk.child_check()
        worker(0, 1, child)
        chk.absorb(child.state())
        return
    ctx = mp.get_context("fork")
    procs = []
    for i in range(nshards):
        pc, cc = ctx.Pipe(duplex=False)
        child = chk.child_check()
        p = ctx.Process(target=_run, args=(worker, i, nshards, child, cc))
        p.start()
        cc.close()
        procs.append((p, pc))
    errs = []
    broken = []
    for p, pc in procs:
        try:
            kind, payload = pc.recv()
        except EOFError:
            kind, payload = "err", "worker died without reporting (exit code %r)" % p.exitcode
        p.join()
        if kind == "ok":
            chk.absorb(pickle.loads(payload))
        elif kind == "broken":
            broken.append(payload)
        else:
            errs.append(payload)
    if broken:
        # a self-check of the harness failed in a worker: the CHECK is broken, nothing is claimed
        raise Broken(broken[0])
    if errs:
        raise WorkerError(errs[0])


class WorkerError(Exception):
    pass
