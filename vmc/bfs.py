"""E3 - explicit-state breadth-first search over operation histories of real
objects.

A state *is* the event history that reaches it: `build(hist)` constructs a
fresh real object and replays the events (live numpy-laden objects do not
copy reliably).  For every state every invariant is evaluated, for every
enabled event the successor is built on the implementation, checked,
canonicalised and de-duplicated.

    build(hist)            -> state object (anything); may raise -> reported by invariant caller
    enabled(hist, state)   -> list of event labels (JSON-able, hashable)
    invariant(hist, state) -> None   (reports through chk.fail)
    canon(hist, state)     -> hashable canonical key

Because every transition is executed on the implementation, the number of
validated traces equals the number of transitions.
"""
import collections
import hashlib

import numpy as np


def digest(obj, ndigits=10, _depth=0):
    """Canonical digest of an arbitrary (numpy-laden) object graph: arrays are
    rounded, None-ness of every attribute is kept, dict order is ignored.
    Used so that two histories are merged only if the real object is
    field-for-field identical (an over-fine key only costs time)."""
    h = hashlib.sha1()
    _feed(h, obj, ndigits, 0, set())
    return h.hexdigest()[:20]


def _feed(h, o, nd, depth, seen):
    if depth > 8:
        h.update(b"<deep>")
        return
    if o is None:
        h.update(b"N")
    elif isinstance(o, (bool, np.bool_)):
        h.update(b"b1" if o else b"b0")
    elif isinstance(o, (int, np.integer)):
        h.update(b"i" + str(int(o)).encode())
    elif isinstance(o, (float, np.floating)):
        h.update(b"f" + _r(float(o), nd))
    elif isinstance(o, (complex, np.complexfloating)):
        h.update(b"c" + _r(o.real, nd) + _r(o.imag, nd))
    elif isinstance(o, str):
        h.update(b"s" + o.encode())
    elif isinstance(o, bytes):
        h.update(b"y" + o)
    elif isinstance(o, np.ndarray):
        h.update(b"A" + str(o.shape).encode() + o.dtype.kind.encode())
        if o.dtype == object:
            for e in o.ravel().tolist():
                _feed(h, e, nd, depth + 1, seen)
        elif o.dtype.kind in "fc":
            a = np.round(o, nd) + 0.0
            h.update(np.ascontiguousarray(a).tobytes())
        else:
            h.update(np.ascontiguousarray(o).tobytes())
    elif isinstance(o, (list, tuple)):
        h.update(b"L%d" % len(o))
        for e in o:
            _feed(h, e, nd, depth + 1, seen)
    elif isinstance(o, (set, frozenset)):
        h.update(b"S")
        for e in sorted(o, key=repr):
            _feed(h, e, nd, depth + 1, seen)
    elif isinstance(o, dict):
        h.update(b"D%d" % len(o))
        for k in sorted(o, key=repr):
            h.update(repr(k).encode())
            _feed(h, o[k], nd, depth + 1, seen)
    elif isinstance(o, np.random.RandomState):
        h.update(b"RS")
    elif _has_state(o) and not callable(o):
        if id(o) in seen:
            h.update(b"<cycle>")
            return
        seen = seen | {id(o)}
        h.update(b"O" + type(o).__name__.encode())
        _feed(h, state_of(o), nd, depth + 1, seen)
    else:
        h.update(b"?" + type(o).__name__.encode())


def state_of(o):
    """instance state of an object as a dict, whether it keeps it in __dict__, in __slots__ or in
    both (a drop-in for vars(o) that does not depend on that implementation choice); for modules and
    classes it is vars(o)"""
    import types
    d = {}
    if hasattr(o, "__dict__"):
        d.update(vars(o))
    if isinstance(o, (type, types.ModuleType)):
        return d
    for cls in type(o).__mro__:
        slots = cls.__dict__.get("__slots__", ())
        if isinstance(slots, str):
            slots = (slots,)
        for name in slots or ():
            if name in ("__dict__", "__weakref__"):
                continue
            attr = name
            if name.startswith("__") and not name.endswith("__"):
                attr = "_%s%s" % (cls.__name__.lstrip("_"), name)
            try:
                d[name] = object.__getattribute__(o, attr)
            except AttributeError:
                pass
    return d


def _has_state(o):
    return hasattr(o, "__dict__") or any("__slots__" in c.__dict__ for c in type(o).__mro__)


def _r(x, nd):
    if x != x:
        return b"nan"
    return repr(round(x, nd) + 0.0).encode()


class BFS:
    def __init__(self, chk, build, enabled, invariant, canon, max_depth,
                 max_states=None, label=""):
        self.chk, self.build, self.enabled = chk, build, enabled
        self.invariant, self.canon = invariant, canon
        self.max_depth, self.max_states = max_depth, max_states
        self.label = label
        self.states = 0
        self.transitions = 0
        self.depth_reached = 0

    def run(self, initial_hists=((),)):
        chk = self.chk
        seen = set()
        frontier = collections.deque()
        for h0 in initial_hists:
            h0 = tuple(h0)
            st = self.build(h0)
            k = self.canon(h0, st)      # key first: invariants may populate caches
            self.invariant(h0, st)
            if k not in seen:
                seen.add(k)
                frontier.append(h0)
        while frontier:
            hist = frontier.popleft()
            self.depth_reached = max(self.depth_reached, len(hist))
            if len(hist) >= self.max_depth + len(tuple(initial_hists[0])):
                continue
            st = self.build(hist)
            for ev in self.enabled(hist, st):
                nh = hist + (ev,)
                nst = self.build(nh)
                self.transitions += 1
                k = self.canon(nh, nst)  # key first: invariants may populate caches
                self.invariant(nh, nst)
                if k not in seen:
                    if self.max_states is not None and len(seen) >= self.max_states:
                        chk.cap("%s: max_states=%d" % (self.label, self.max_states))
                        continue
                    seen.add(k)
                    frontier.append(nh)
                    if len(nh) <= 3:
                        chk.sample({"history": list(nh)})
        self.states = len(seen)
        chk.states += self.states
        chk.transitions += self.transitions
        chk.traces_validated += self.transitions
        return self
