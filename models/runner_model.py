"""Driver + reference model of pyphysim's Monte Carlo runner (C05, C07).

ScriptedRunner closes the system: `_run_simulation` and `_keep_going` are the
user callbacks; the first asks the explorer for an answer (succeed with a value /
raise SkipThisOne / crash), the second is one of a finite family of predicates.
The reference interpreter is the documented loop, nothing more.
"""
import itertools

import numpy as np

from pyphysim.simulations import runner as R
from pyphysim.simulations.results import Result, SimulationResults

# ----------------------------------------------------------------------
# grids
# ----------------------------------------------------------------------
VALUES = {
    "b": [10, 20, 30],
    "a": ["x", "y", "z"],
    "c": [0.5, 1.5, 2.5],
    # distinct floats that a tolerance-based comparison would confuse
    "d": [1e-9, 2e-9, 4e-9],
    "e": [2.4e9, 2.4e9 + 5e3, 2.4e9 + 1e4],
    # falsy-but-valid values
    "z": [0, 1, 2],
}


def make_grid(lengths, order=("b", "a", "c", "e", "d", "z"), as_array=()):
    """lengths: dict name -> length (1..3) of the unpacked parameters.
    Returns (params_dict, unpacked_names_in_insertion_order)."""
    d = {}
    d["fixed"] = 7
    names = [n for n in order if n in lengths]
    for n in names:
        vals = VALUES[n][:lengths[n]]
        dt = [a.split(":")[1] for a in as_array if ":" in a and a.split(":")[0] == n]
        if dt:
            d[n] = np.array(vals, dtype=dt[0])        # e.g. "d:float32": a single-precision array
        else:
            d[n] = np.array(vals) if n in as_array else list(vals)
    return d, names


def variations(params_dict, unpacked):
    """reference enumeration: row-major product over SORTED unpacked names"""
    names = sorted(unpacked)
    if not names:
        return [dict()]
    lists = [list(params_dict[n]) for n in names]
    return [dict(zip(names, comb)) for comb in itertools.product(*lists)]


# ----------------------------------------------------------------------
# keep-going predicates
# ----------------------------------------------------------------------
def keep_going_family():
    fam = [("rep", m) for m in range(16)]
    fam += [("sum", s) for s in (2, 3, 4, 5)]
    return fam


def eval_keep_going(spec, merged_sum, rep):
    kind, v = spec
    if kind in ("rep", "rep_np"):
        return bool((v >> ((rep - 1) % 4)) & 1) if rep <= 4 else True
    if kind in ("sum", "sum_np"):
        return merged_sum < v
    if kind in ("true", "default"):
        return True
    raise ValueError(spec)


# ----------------------------------------------------------------------
class Skip(Exception):
    pass


class ScriptedRunner(R.SimulationRunner):
    def __init__(self, params_dict, unpacked, rep_max, keep_spec, answer, token=False):
        super().__init__(read_command_line_args=False)
        self.update_progress_function_style = None
        self.rep_max = rep_max
        for k, v in params_dict.items():
            self.params.add(k, v)
        for n in unpacked:
            self.params.set_unpack_parameter(n)
        self.keep_spec = keep_spec
        self.answer = answer          # callable(call_index, current_parameters) -> ("ok", value) | ("skip",)
        self.call_log = []
        self.ncalls = 0

    def _run_simulation(self, current_parameters):
        k = self.ncalls
        self.ncalls += 1
        pd = {n: current_parameters[n] for n in current_parameters.parameters
              if n not in ("rep_max",)}
        self.call_log.append((current_parameters.unpack_index, _plain(pd)))
        a = self.answer(k, current_parameters)
        if a[0] == "skip":
            raise R.SkipThisOne("scripted skip of call %d" % k)
        res = SimulationResults()
        res.add_new_result("v", Result.SUMTYPE, a[1])
        return res

    def _keep_going(self, current_params, current_sim_results, current_rep):
        if self.keep_spec[0] == "default":
            # the library's own default stop rule (not overridden by the user)
            return R.SimulationRunner._keep_going(self, current_params, current_sim_results, current_rep)
        s = current_sim_results["v"][-1].get_result()
        r = eval_keep_going(self.keep_spec, s, current_rep)
        if self.keep_spec[0].endswith("_np"):
            # what a user's `errors < max_errors` on numpy-valued results returns
            return np.bool_(r)
        return r


def _plain(d):
    out = {}
    for k, v in d.items():
        if isinstance(v, np.ndarray):
            v = v.tolist()
        elif isinstance(v, np.generic):
            v = v.item()
        out[k] = v
    return out


# ----------------------------------------------------------------------
# reference interpreter
# ----------------------------------------------------------------------
class RefVariation:
    __slots__ = ("index", "values", "calls", "succ", "skipped", "rep", "start_rep")

    def __init__(self, index, values):
        self.index, self.values = index, values
        self.calls, self.succ, self.skipped, self.rep = [], [], 0, 0


def ref_run_variation(rv, rep_max, keep_spec, next_answer, loaded=None):
    """the documented loop.  `next_answer()` yields ("ok", v) | ("skip",).
    loaded = (rep, merged_sum, num_updates) when resuming from partial results."""
    if loaded is None:
        while True:                       # first repetition is unconditional
            a = next_answer(rv)
            if a[0] == "skip":
                rv.skipped += 1
                continue
            rv.succ.append(a[1])
            break
        rv.rep = 1
        base = 0
    else:
        rv.rep, base = loaded[0], loaded[1]
    while eval_keep_going(keep_spec, base + sum(rv.succ), rv.rep) and rv.rep < rep_max:
        a = next_answer(rv)
        if a[0] == "skip":
            rv.skipped += 1
        else:
            rv.succ.append(a[1])
            rv.rep += 1
    return rv
