#!/usr/bin/env python3
"""Regenerates /verif/benign/README.md from the meta.json files."""
import glob, json, os
root = os.path.dirname(os.path.dirname(os.path.abspath(__file__)))
verdicts = json.load(open(os.path.join(root, "benign", "verdicts.json")))
rows = []
for f in sorted(glob.glob(os.path.join(root, "benign", "*", "meta.json"))):
    m = json.load(open(f))
    notes = m.get("notes", "")
    first = " ".join(l.strip() for l in notes.splitlines() if l.strip() and not l.startswith("#"))[:300]
    def st(q, checks):
        if q is None:
            return "-"
        if q:
            return "quiet"
        return "ALARM: " + "; ".join(s for c in checks.values() for s in c.get("signatures", [])[:2])
    rows.append((m["name"], m["property"], "yes" if m.get("baseline_ok") else "NO",
                 "%s/%s" % (m.get("holds_clean"), m.get("holds_patched")),
                 "%s/%s" % (m.get("differs_clean"), m.get("differs_patched")),
                 st(m.get("quiet"), m.get("checks", {})), st(m.get("quiet_thorough"), m.get("checks_thorough", {})),
                 verdicts.get(m["name"], ""), first))
out = ["# Property-preserving changes (false-alarm controls)", "",
       "Each directory holds `patch.diff` (applies to /repo HEAD of `meta.json:base_commit`), `holds.py` (a demo of the",
       "property around the changed code: exit 0 on both trees), `differs.py` (shows that the change is observable: exit 0 on",
       "the clean tree, 1 on the patched tree), `notes.md` (the author's argument why the property still holds) and",
       "`meta.json` (what was run). All were produced by sub-agents that saw only the property text and a scratch worktree,",
       "and were asked for (a) a numerically different but equally accurate computation, (b) other behaviour outside the",
       "property's domain, (c) a performance / structure refactor. The check of the property must stay QUIET on them.",
       "Re-validate one with `tools/validate_benign.py benign/<name> <PID> <name> [--tier thorough] [--no-baseline]`.", "",
       "%d changes; quick tier quiet on %d; thorough tier run on %d, quiet on %d."
       % (len(rows), sum(r[5] == "quiet" for r in rows), sum(r[6] != "-" for r in rows), sum(r[6] == "quiet" for r in rows)), "",
       "| change | property | suite passes | holds.py clean/patched | differs.py clean/patched | quick tier | thorough tier | verdict on an alarm | what it is |",
       "|---|---|---|---|---|---|---|---|---|"]
for r in rows:
    out.append("| " + " | ".join(str(x).replace("|", "\\|").replace("\n", " ") for x in r) + " |")
open(os.path.join(root, "benign", "README.md"), "w").write("\n".join(out) + "\n")
print("benign/README.md: %d rows" % len(rows))
