"""vmc - a small kit for bounded exhaustive exploration of real Python code."""
