"""C15 - constellations are Gray labelled; Gray conversion is a bijection;
bit-error counting is the Hamming distance.

Part A (E3, explicit-state BFS over histories): states are PSK objects reached
by `PSK(M, phi0)` followed by every sequence of `setPhaseOffset(phi)` calls up
to the depth bound; QAM/BPSK/QPSK objects are single-state machines.  In every
state: every pair of symbols at minimum distance carries labels one bit apart.

Part B (E1): binary2gray / gray2binary / count_bit_errors on every integer of
[0, 2^20) (thorough 2^24), on every integer < 2^62 with at most three set bits
and its neighbours, as Python int, numpy scalar, int64 and uint64 arrays; all
pairs of the <=2-bit values for bit-error counting, every axis.
"""
import itertools
import math

import numpy as np

from vmc import bfs, common
from vmc.report import Check

PID = "C15"
LEVEL = "model_checking"
ENGINE = "E3 BFS over setPhaseOffset histories + E1 exhaustive integer domains"
RULE = ("A: every PSK order 2..2^12 x initial offset x every setPhaseOffset history <= depth; "
        "QAM 4..4^6; BPSK; QPSK; oracle = popcount(label_i xor label_j)==1 for every "
        "minimum-distance pair found by brute-force pairwise distances. "
        "B: every integer of the stated finite sets through binary2gray/gray2binary/"
        "count_bit_errors against a bit-loop reference. A case is non-trivial when the "
        "constellation has >2 points (A) or the integer has a set bit above bit 0 (B); "
        "distinct = distinct (kind, M, symbols digest) or distinct integer blocks")


def offsets():
    return [0.0, None, math.pi / 4, math.pi / 7, 1.0, -2.5, 2 * math.pi + 0.3,
            2 * math.pi * common.seed_offset(15)]


def _off(phi, M):
    return math.pi / M if phi is None else phi


# ----------------------------------------------------------------------
# oracle
# ----------------------------------------------------------------------
def min_distance_pairs(sym):
    """brute force: (dmin, array of (i,j) i<j with |s_i-s_j| <= dmin(1+1e-9))"""
    s = np.asarray(sym, dtype=complex).ravel()
    M = s.size
    dmin = math.inf
    chunk = max(1, min(M, 4_000_000 // max(M, 1)))
    for a in range(0, M, chunk):
        d = np.abs(s[a:a + chunk, None] - s[None, :])
        for r in range(d.shape[0]):
            d[r, a + r] = math.inf
        dmin = min(dmin, float(d.min()))
    pairs = []
    thr = dmin * (1 + 1e-9)
    for a in range(0, M, chunk):
        d = np.abs(s[a:a + chunk, None] - s[None, :])
        ii, jj = np.nonzero(d <= thr)
        ii = ii + a
        keep = ii < jj
        pairs.append(np.stack([ii[keep], jj[keep]], axis=1))
    return dmin, np.concatenate(pairs, axis=0)


def popcount(n):
    return bin(int(n)).count("1")


_GV_CACHE = {}


def gray_violations(sym):
    """pure function of the exact symbol table -> memoised on its bytes"""
    key = np.ascontiguousarray(sym).tobytes()
    r = _GV_CACHE.get(key)
    if r is None:
        dmin, pairs = min_distance_pairs(sym)
        x = pairs[:, 0] ^ pairs[:, 1]
        ok = (x & (x - 1)) == 0          # exactly one bit set (x > 0 since i < j)
        bad = [(int(i), int(j)) for i, j in pairs[~ok][:50]]
        r = (dmin, len(pairs), bad, int((~ok).sum()))
        if len(_GV_CACHE) < 4096:
            _GV_CACHE[key] = r
    return r


def ref_b2g(n):
    return n ^ (n >> 1)


def ref_g2b(g):
    n = 0
    while g:
        n ^= g
        g >>= 1
    return n


# ----------------------------------------------------------------------
# Part A
# ----------------------------------------------------------------------
def build_psk(M, hist):
    from pyphysim.modulators import fundamental as F
    kind, phi0 = hist[0]
    assert kind == "new"
    m = F.PSK(M, _off(phi0, M))
    for ev in hist[1:]:
        m.setPhaseOffset(_off(ev[1], M))
    return m


def classify_psk(M, hist, sym):
    """what kind of wrong labelling is it?  'natural_order' = label k sits at
    angle 2 pi k / M + phi (the constellation before the Gray permutation)."""
    phi = _off(hist[-1][1], M)
    nat = np.exp(1j * (2 * np.pi * np.arange(M) / M + phi))
    if np.shape(sym) == (M,) and np.max(np.abs(np.asarray(sym) - nat)) < 1e-9:
        return "natural_order_labels"
    return "other_labelling"


def check_constellation(chk, kind, M, hist, sym, case):
    chk.count("eval_constellations")
    sym = np.asarray(sym)
    if sym.shape != (M,) or not np.all(np.isfinite(sym)):
        chk.fail((kind + "_gray", "malformed_constellation"), case,
                 observed="shape %r" % (sym.shape,), expected="(%d,) finite" % M)
        return
    dmin, npairs, bad, nbad = gray_violations(sym)
    chk.count("eval_min_distance_pairs", npairs)
    if M > 2:
        chk.nontriv((kind, M, bfs.digest(sym, 9)))
    chk.outcome("neighbour_pairs", (kind, M, npairs))
    if bad:
        if kind == "psk":
            how = "constructed" if len(hist) == 1 else "after_setPhaseOffset"
            sig = ("psk_gray", how, classify_psk(M, hist, sym))
        elif kind == "qam":
            sig = ("qam_gray", "M>=64" if M >= 64 else "M=%d" % M, classify_qam(M, sym))
        else:
            sig = (kind + "_gray",)
        i, j = bad[0]
        chk.fail(sig, case, observed="%d of %d minimum-distance pairs differ in !=1 bit, "
                 "e.g. labels %d and %d (xor=%s)" % (nbad, npairs, i, j, bin(i ^ j)),
                 expected="all minimum-distance pairs one bit apart")


def classify_qam(M, sym):
    """'row_col_binary2gray_table' = exactly the table obtained by permuting the
    row-major grid with index (b2g(r) << k/2) + b2g(c) -- the labelling the
    pinned test-suite table for 64-QAM encodes."""
    L = int(round(math.sqrt(M)))
    grid = np.empty(M, dtype=complex)
    for jj in range(L):
        for ii in range(L):
            grid[ii * L + jj] = complex(-(L - 1) + 2 * jj, (L - 1) - 2 * ii)
    grid = grid / math.sqrt((M - 1) * 2.0 / 3.0)
    col = np.array([ref_b2g(i) for i in range(L)])
    half = int(round(math.log2(M))) // 2
    idx = ((col.reshape(L, 1) << half) + col.reshape(1, L)).reshape(M)
    known = grid[idx]
    if np.shape(sym) == (M,) and np.max(np.abs(sym - known)) < 1e-9:
        return "row_col_binary2gray_table"
    return "other_labelling"


def part_a(chk, max_log2_psk, depth, qam_orders):
    from pyphysim.modulators import fundamental as F
    offs = offsets()
    evs = [("set", p) for p in offs]
    for k in range(1, max_log2_psk + 1):
        M = 2 ** k

        def build(hist, M=M):
            return build_psk(M, hist)

        def enabled(hist, st):
            return evs

        def invariant(hist, st, M=M):
            case = {"part": "A", "kind": "psk", "M": M, "history": [list(h) for h in hist]}
            with chk.guard(("psk_gray",), case):
                check_constellation(chk, "psk", M, hist, st.symbols, case)

        def canon(hist, st, M=M):
            return (M, len(hist) > 1, bfs.digest(st.symbols, 9))

        b = bfs.BFS(chk, build, enabled, invariant, canon, depth, label="psk%d" % M)
        # initial states: every constructed object; depth counts setPhaseOffset calls
        b.max_depth = depth
        seen_init = [(("new", p),) for p in offs]
        b.run(seen_init)
    for M in qam_orders:
        case = {"part": "A", "kind": "qam", "M": M}
        with chk.guard(("qam_gray",), case):
            q = F.QAM(M)
            check_constellation(chk, "qam", M, (), q.symbols, case)
        chk.states += 1
    for kind, ctor in (("bpsk", F.BPSK), ("qpsk", F.QPSK)):
        case = {"part": "A", "kind": kind}
        with chk.guard((kind + "_gray",), case):
            m = ctor()
            check_constellation(chk, kind, m.M, (), m.symbols, case)
        chk.states += 1
    # several live objects of one configuration: the owner of one object edits ITS public table in
    # place (re-labels it); a sibling built before and an object built afterwards must still carry
    # the constellation "produced by the library" for that configuration (no table shared between
    # objects, no process-wide cache handing out the edited array)
    makers = [("psk", 2 ** k, (lambda M=2 ** k, p=p: F.PSK(M, _off(p, M))), _off(p, 2 ** k))
              for k in range(1, max_log2_psk + 1) for p in (0.0, None, 1.0)]
    makers += [("qam", M, (lambda M=M: F.QAM(M)), None) for M in qam_orders]
    makers += [("qpsk", 4, F.QPSK, None), ("bpsk", 2, F.BPSK, None)]
    for kind, M, make, p in makers:
        case = {"part": "A", "kind": kind, "M": M, "phase_offset": p, "what": "siblings"}
        with chk.guard((kind + "_gray", "siblings"), case):
            before = make()
            owner = make()
            reference = np.array(before.symbols, copy=True)
            try:
                owner.symbols[...] = owner.symbols[::-1].copy()      # natural <-> reversed labelling
                scribbled = True
            except (ValueError, TypeError):                           # a read-only table: nothing to share
                scribbled = False
            after = make()
            chk.outcome("sibling_tables", (kind, "writable" if scribbled else "read_only"))
            chk.count("eval_constellations")
            for who, obj in (("sibling_built_before", before), ("object_built_afterwards", after)):
                if not np.array_equal(np.asarray(obj.symbols), reference):
                    chk.fail((kind + "_gray", "table_shared_between_objects", who), case,
                             observed="symbols of the %s changed after another object's table was edited in place"
                             % who.replace("_", " "), expected="the constellation of a fresh object")
        chk.states += 1


# ----------------------------------------------------------------------
# Part B
# ----------------------------------------------------------------------
def bucket(n):
    b = int(n).bit_length()
    return "bits<=16" if b <= 16 else ("bits17..32" if b <= 32 else "bits33..62")


def few_bit_integers(maxbits=62, k=3):
    out = set()
    for r in range(0, k + 1):
        for pos in itertools.combinations(range(maxbits), r):
            n = 0
            for p in pos:
                n |= 1 << p
            out.add(n)
    ext = set()
    for n in out:
        for d in (-1, 0, 1):
            m = n + d
            if 0 <= m < 2 ** 62:
                ext.add(m)
    return sorted(ext)


def check_conv_array(chk, arr, form):
    """arr: numpy integer array; checks all conversion relations element-wise"""
    from pyphysim.util import conversion as C
    case0 = {"part": "B", "form": form, "first": int(arr.flat[0]), "n": int(arr.size)}
    with chk.guard(("gray_conv", form), case0):
        py = [int(v) for v in arr.ravel().tolist()] if arr.size <= 200000 else None
        before = arr.copy()
        g = C.binary2gray(arr)
        g_before = np.array(g, copy=True)
        back = C.gray2binary(g)
        # arguments are never modified and results do not alias them; a second call agrees
        if not np.array_equal(np.asarray(g), g_before) or not np.array_equal(arr, before):
            chk.fail(("gray_conv", "argument_modified_in_place"), case0,
                     observed="argument array changed by the call", expected="arguments untouched")
        back2 = C.gray2binary(g)
        if not np.array_equal(np.asarray(back), np.asarray(back2)):
            chk.fail(("gray_conv", "second_call_differs"), case0, observed="gray2binary(g) twice differs",
                     expected="same result")
        fwd = C.binary2gray(C.gray2binary(arr))
        if not np.array_equal(arr, before):
            chk.fail(("gray_conv", "argument_modified_in_place"), case0,
                     observed="argument array changed by the call", expected="arguments untouched")
        chk.count("eval_integers", int(arr.size))
        a64 = arr.astype(np.uint64)
        ref_g = a64 ^ (a64 >> np.uint64(1))
        _cmp(chk, form, "binary2gray", arr, np.asarray(g).astype(np.uint64), ref_g)
        _cmp(chk, form, "gray2binary(binary2gray(n))", arr, np.asarray(back).astype(np.uint64), a64)
        _cmp(chk, form, "binary2gray(gray2binary(n))", arr, np.asarray(fwd).astype(np.uint64), a64)
        # consecutive Gray codes one bit apart (n and n+1 both in the array's dtype range)
        nxt = arr + arr.dtype.type(1)
        gn = np.asarray(C.binary2gray(nxt)).astype(np.uint64)
        x = np.asarray(g).astype(np.uint64) ^ gn
        pc = _popcount_u64(x)
        bad = np.nonzero(pc != 1)[0]
        if bad.size:
            n = int(arr.ravel()[bad[0]])
            chk.fail(("gray_consecutive", bucket(n)), {"part": "B", "form": form, "n": n},
                     observed="popcount(g(n)^g(n+1))=%d" % int(pc[bad[0]]), expected=1)
        if py is not None and len(py) <= 5000:
            # independent pure-Python oracle on the same values
            for n, gv, bv in zip(py, np.asarray(g).ravel().tolist(), np.asarray(back).ravel().tolist()):
                if int(gv) != ref_b2g(n) or ref_g2b(ref_b2g(n)) != n:
                    chk.fail(("binary2gray", bucket(n)), {"part": "B", "form": form, "n": n},
                             observed=int(gv), expected=ref_b2g(n))


def _popcount_u64(x):
    x = x.astype(np.uint64)
    c = np.zeros(x.shape, dtype=np.int64)
    for _ in range(64):
        c += (x & np.uint64(1)).astype(np.int64)
        x = x >> np.uint64(1)
    return c


def _cmp(chk, form, what, arr, got, want):
    if got.shape != want.shape:
        chk.fail((what, "shape"), {"part": "B", "form": form, "first": int(arr.flat[0])},
                 observed=got.shape, expected=want.shape)
        return
    bad = np.nonzero(got.ravel() != want.ravel())[0]
    if bad.size:
        # report the smallest failing integer of each magnitude bucket
        vals = arr.ravel()[bad]
        for b in ("bits<=16", "bits17..32", "bits33..62"):
            sel = [int(v) for v in vals[:100000] if bucket(v) == b]
            if sel:
                n = min(sel)
                i = int(np.nonzero(arr.ravel() == n)[0][0])
                chk.fail((what, b), {"part": "B", "form": form, "n": n},
                         observed=int(got.ravel()[i]), expected=int(want.ravel()[i]),
                         msg="%d of %d integers of this array wrong" % (bad.size, arr.size))


def check_conv_scalar(chk, n, form):
    from pyphysim.util import conversion as C
    case = {"part": "B", "form": form, "n": n}
    with chk.guard(("gray_conv", form), case):
        v = n if form == "pyint" else np.int64(n)
        g = C.binary2gray(v)
        b = C.gray2binary(g)
        f = C.binary2gray(C.gray2binary(v))
        chk.count("eval_integers")
        if int(g) != ref_b2g(n):
            chk.fail(("binary2gray", bucket(n)), case, observed=int(g), expected=ref_b2g(n))
        if int(b) != n:
            chk.fail(("gray2binary(binary2gray(n))", bucket(n)), case, observed=int(b), expected=n)
        if int(f) != n:
            chk.fail(("binary2gray(gray2binary(n))", bucket(n)), case, observed=int(f), expected=n)
        if n + 1 < 2 ** 62:
            g2 = C.binary2gray(v + 1)
            if popcount(int(g) ^ int(g2)) != 1:
                chk.fail(("gray_consecutive", bucket(n)), case,
                         observed=popcount(int(g) ^ int(g2)), expected=1)


def check_biterrors(chk, a, b, form):
    from pyphysim.util import misc
    case = {"part": "B", "what": "count_bit_errors", "form": form,
            "a": a if a.size <= 16 else a.ravel()[:8], "b": b if b.size <= 16 else b.ravel()[:8],
            "shape": list(a.shape)}
    with chk.guard(("count_bit_errors", form), case):
        ref = _popcount_u64(a.astype(np.uint64) ^ b.astype(np.uint64))
        chk.count("eval_bit_error_pairs", int(a.size))
        a0, b0 = a.copy(), b.copy()
        got = misc.count_bit_errors(a, b)
        if not (np.array_equal(a, a0) and np.array_equal(b, b0)):
            chk.fail(("count_bit_errors", "argument_modified_in_place", form), case,
                     observed="argument changed", expected="arguments untouched")
        if a.size and int(misc.count_bit_errors(a, b)) != int(got):
            chk.fail(("count_bit_errors", "second_call_differs", form), case, observed="differs", expected="same")
        if int(got) != int(ref.sum()):
            chk.fail(("count_bit_errors", "total", form), case, observed=int(got), expected=int(ref.sum()))
        for ax in range(a.ndim):
            got = misc.count_bit_errors(a, b, ax)
            want = ref.sum(axis=ax)
            if np.shape(got) != want.shape or np.any(np.asarray(got) != want):
                chk.fail(("count_bit_errors", "axis", form), dict(case, axis=ax),
                         observed=np.asarray(got).ravel()[:8], expected=want.ravel()[:8])


def part_b(chk, full_bits):
    N = 2 ** full_bits
    block = 2 ** 18
    for start in range(0, N, block):
        arr = np.arange(start, min(N, start + block), dtype=np.int64)
        check_conv_array(chk, arr, "int64_array")
        chk.nontriv(("block", start))
    arr = np.arange(0, 2 ** 16 + 64, dtype=np.uint64)
    check_conv_array(chk, arr, "uint64_array")
    few = few_bit_integers()
    chk.extra["few_bit_integers"] = len(few)
    fa = np.array(few, dtype=np.int64)
    for i in range(0, len(fa), 4096):
        check_conv_array(chk, fa[i:i + 4096], "int64_array")
        check_conv_array(chk, fa[i:i + 4096].astype(np.uint64), "uint64_array")
        chk.nontriv(("few", i))
    check_conv_array(chk, fa[:1024].reshape(32, 32), "int64_array_2d")
    # memory layouts and integer widths: Fortran order, transposed / strided / reversed views,
    # read-only arrays, every integer dtype wide enough for the values
    sq = fa[:1024].reshape(32, 32)
    check_conv_array(chk, np.asfortranarray(sq), "int64_array_2d_fortran")
    check_conv_array(chk, sq.T, "int64_array_2d_transposed_view")
    check_conv_array(chk, sq[::-1, ::3], "int64_array_2d_strided_view")
    check_conv_array(chk, fa[:1000].reshape(10, 10, 10).swapaxes(0, 2), "int64_array_3d_swapaxes")
    ro = fa[:512].copy()
    ro.setflags(write=False)
    check_conv_array(chk, ro, "int64_array_readonly")
    check_conv_array(chk, np.arange(0, 127, dtype=np.int8), "int8_array")
    check_conv_array(chk, np.arange(0, 255, dtype=np.uint8), "uint8_array")
    check_conv_array(chk, np.arange(0, 2 ** 15 - 1, dtype=np.int16), "int16_array")
    check_conv_array(chk, np.arange(0, 2 ** 16 - 1, dtype=np.uint16), "uint16_array")
    small32 = np.array([n for n in few if n < 2 ** 31 - 1], dtype=np.int32)
    check_conv_array(chk, small32, "int32_array")
    check_conv_array(chk, np.array([n for n in few if n < 2 ** 32 - 1], dtype=np.uint32), "uint32_array")
    # scalars: all ints with <= 2 set bits (+-1) as Python int and numpy scalar
    two = [n for n in few if popcount(n) <= 2 or popcount(n + 1) <= 2 or (n and popcount(n - 1) <= 2)]
    step = 1 if chk.tier == "thorough" else 3
    for n in two[::step]:
        check_conv_scalar(chk, n, "pyint")
        check_conv_scalar(chk, n, "np_int64_scalar")
    chk.sample({"part": "B", "form": "pyint", "n": two[len(two) // 2]})
    # bit errors: all pairs of the <=2-bit values (1954 values -> 3.8e6 pairs) via arrays
    v2 = np.array(sorted(set(n for n in few if popcount(n) <= 2)), dtype=np.int64)
    chk.extra["bit_error_values"] = int(v2.size)
    for i in range(0, v2.size, 1 if chk.tier == "thorough" else 7):
        a = np.full(v2.size, v2[i], dtype=np.int64)
        check_biterrors(chk, a, v2, "int64_1d")
    m = (v2.size // 6) * 6
    A = v2[:m].reshape(6, m // 6)
    B = v2[::-1][:m].reshape(6, m // 6)
    check_biterrors(chk, A, B, "int64_2d")
    check_biterrors(chk, A.reshape(2, 3, m // 6), B.reshape(2, 3, m // 6), "int64_3d")
    check_biterrors(chk, A.astype(np.uint64), B.astype(np.uint64), "uint64_2d")
    check_biterrors(chk, np.asfortranarray(A), B, "int64_2d_fortran_vs_c")
    check_biterrors(chk, A.T, B.T, "int64_2d_transposed_views")
    check_biterrors(chk, A[:, ::-2], B[:, ::-2], "int64_2d_strided_views")
    check_biterrors(chk, A.reshape(2, 3, m // 6).swapaxes(0, 1), B.reshape(2, 3, m // 6).swapaxes(0, 1),
                    "int64_3d_swapaxes")
    # the whole uint64 range (bit 62 and bit 63 included): "all pairs of non-negative integer arrays";
    # every value with <= 2 set bits among 64 (2081 values), all pairs of them
    u2 = sorted(set([0] + [1 << i for i in range(64)] + [(1 << i) | (1 << j) for i in range(64) for j in range(i)]))
    u2 = np.array(u2, dtype=np.uint64)
    chk.extra["bit_error_values_uint64_full_range"] = int(u2.size)
    for i in range(0, u2.size, 1 if chk.tier == "thorough" else 7):
        check_biterrors(chk, np.full(u2.size, u2[i], dtype=np.uint64), u2, "uint64_full_range_1d")
    mu = (u2.size // 6) * 6
    check_biterrors(chk, u2[-mu:].reshape(6, mu // 6), u2[::-1][-mu:].reshape(6, mu // 6), "uint64_full_range_2d")
    # long arrays (sizes around and beyond powers of two up to 2^18+5, not only multiples of a block
    # size a blocked implementation might use): errors concentrated in the last elements as well
    sizes = [4095, 4097, 65535, 65536, 65537, 131071, 131073, 200001, 2 ** 18 + 5]
    if chk.tier == "thorough":
        sizes += [2 ** 20 + 3, 3 * 2 ** 19 + 1]
    for n in sizes:
        a = np.arange(n, dtype=np.int64)
        b = a.copy()
        tail = max(1, n % 4096 or 7)
        b[-tail:] ^= np.int64(0x5A5A5)                  # errors only in the left-over region
        check_biterrors(chk, a, b, "int64_long_tail_errors")
        check_biterrors(chk, a, a[::-1].copy(), "int64_long")
        if n % 3 == 0:
            check_biterrors(chk, a.reshape(3, n // 3), a[::-1].copy().reshape(3, n // 3), "int64_long_2d")
    lo = v2[v2 < 2 ** 31 - 1]
    check_biterrors(chk, lo.astype(np.int32), lo[::-1].astype(np.int32), "int32_1d")
    check_biterrors(chk, lo.astype(np.uint32), lo[::-1].astype(np.uint32), "uint32_1d")
    lo8 = v2[v2 < 127]
    check_biterrors(chk, lo8.astype(np.int8), lo8[::-1].astype(np.int8), "int8_1d")
    check_biterrors(chk, lo8.astype(np.uint8), lo8[::-1].astype(np.uint8), "uint8_1d")
    check_biterrors(chk, np.zeros((0,), dtype=np.int64), np.zeros((0,), dtype=np.int64), "empty_1d")
    from pyphysim.util import misc
    case = {"part": "B", "what": "count_bit_errors", "form": "pyint_scalars"}
    with chk.guard(("count_bit_errors", "pyint"), case):
        for x, y in itertools.product([0, 1, 2, 3, 255, 2 ** 40 + 5, 2 ** 61], repeat=2):
            got = misc.count_bit_errors(x, y)
            chk.count("eval_bit_error_pairs")
            if int(got) != popcount(x ^ y):
                chk.fail(("count_bit_errors", "pyint"), dict(case, a=x, b=y),
                         observed=int(got), expected=popcount(x ^ y))


# ----------------------------------------------------------------------
def main(chk: Check):
    thorough = chk.tier == "thorough"
    chk.assume("minimum-distance pairs are those within dmin*(1+1e-9) by brute-force pairwise distances")
    chk.assume("code conversions: integers >= 2^62 and negative integers are outside the property's domain; bit-error counting: every non-negative integer of the array dtype, uint64 up to 2^64-1")
    part_a(chk, 12, 3 if thorough else 2, [4 ** i for i in range(1, 7)])
    part_b(chk, 24 if thorough else 20)
    chk.sample({"part": "A", "kind": "psk", "M": 8, "history": [["new", 0.0], ["set", 1.0]]})
    chk.require_outcomes("neighbour_pairs", 12)


def replay(case, chk: Check):
    from pyphysim.modulators import fundamental as F
    if case.get("part") == "A":
        kind = case["kind"]
        if kind == "psk":
            hist = tuple(tuple(h) for h in case["history"])
            with chk.guard(("psk_gray",), case):
                m = build_psk(case["M"], hist)
                check_constellation(chk, "psk", case["M"], hist, m.symbols, case)
        elif kind == "qam":
            with chk.guard(("qam_gray",), case):
                check_constellation(chk, "qam", case["M"], (), F.QAM(case["M"]).symbols, case)
        else:
            m = F.BPSK() if kind == "bpsk" else F.QPSK()
            check_constellation(chk, kind, m.M, (), m.symbols, case)
    elif case.get("what") == "count_bit_errors":
        a, b = np.asarray(case["a"]), np.asarray(case["b"])
        check_biterrors(chk, a, b, case["form"])
    else:
        n = case.get("n", case.get("first", 0))
        form = case["form"]
        if form in ("pyint", "np_int64_scalar"):
            check_conv_scalar(chk, n, form)
        else:
            dt = np.dtype(form.split("_")[0]) if form.split("_")[0] in (
                "int8", "uint8", "int16", "uint16", "int32", "uint32", "int64", "uint64") else np.int64
            check_conv_array(chk, np.array([n], dtype=dt), form)
