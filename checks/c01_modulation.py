"""C01 - modulation is invertible and detection picks the nearest constellation
symbol; unsupported cardinalities / indexes are rejected.

E1 (bounded exhaustive product).  Enumerated on the real implementation:

* every object `BPSK()`, `QPSK()`, `PSK(M, phi0)`, `PSK(M, phi0).setPhaseOffset(phi1)`
  (M = 2^1..2^10, phi0, phi1 over the 8-letter offset alphabet, QPSK after
  setPhaseOffset too), `QAM(M)` (M = 4^1..4^6);
* per object: the emitted table (M distinct finite points, unit mean energy,
  M, K), EVERY index 0..M-1 through modulate/demodulate in every presentation
  of the alphabet below, the invalid indexes, and a finite family of received
  samples (every constellation point, probes either side of every decision
  boundary found by the oracle, a 65x65 lattice, rays towards 0 and infinity),
  each compared with an independent brute-force nearest-point search;
* presentations (index arrays AND received-sample arrays; the element at
  logical position p of the input must decide position p of the output):
  C-contiguous 1-D/2-D/3-D, read-only, transposed (F-contiguous) 2-D/3-D,
  Fortran-ordered copy, swapped axes, strided views x[:, ::2] / x[::3] of a
  larger buffer, negative strides, 0-d, empty (0,), (0,k), (2,0); indexes also
  as int8..uint64/intp arrays, numpy scalars, Python ints and (nested) Python
  lists; samples also as complex64 (float64/float32 for BPSK);
* every integer cardinality 0..4100 through both constructors.

Nothing is sampled: the seed only rotates the irrational offset of the lattice,
of the rays and of one phase-offset letter.
"""
import math

import numpy as np

from vmc import bfs, common
from vmc.numerics import EPS
from vmc.parallel import run_shards, shard
from vmc.report import Broken, Check

PID = "C01"
LEVEL = "exploration"
ENGINE = "E1 exhaustive product enumerator"
RULE = ("objects: BPSK, QPSK(+setPhaseOffset), PSK(2^1..2^10, 8 offsets) constructed and after "
        "setPhaseOffset(8 offsets) from every constructed offset, QAM(4^1..4^6); per object every "
        "index 0..M-1 in ~30 presentations (contiguous / transposed / Fortran / swapped-axes / strided / "
        "negative-stride / read-only / empty arrays, 8 integer dtypes, scalars, lists), 4 invalid indexes "
        "alone and mixed, and the sample family "
        "{constellation points, midpoint +-delta*n (delta/dmin in 1e-11,1e-9,1e-6,1e-3,0.25 [thorough: + 1e-10,1e-8,1e-4]; "
        "tangential shifts 0,+-0.4 dmin) of every Gabriel-adjacent pair, 65x65 [129x129] lattice over "
        "[-1.6,1.6]^2, 64 [256] rays x radii 1e-12,10,1e6} as plain 1-D arrays and once more in the 12 other array presentations "
        "(all of them per family when cheap, else consecutive blocks rotate through them), 0-d, complex64, "
        "against brute-force argmin of squared distance "
        "(ties excluded by a margin test); per object one index buffer and one sample buffer rewritten in "
        "place between calls (no state across calls, arguments unmodified, returned arrays not aliased); "
        "constructors on every integer 0..4100. A case is "
        "non-trivial when the table has >= 2 points; distinct = distinct (kind, M, table digest)")

TIE_REL_DMIN2 = 1e-12         # margin test: gap of squared distances < 1e-12 dmin^2 -> tie
TIE_REL_FLOAT = 64 * EPS      # ... or below the float resolution of a squared distance
ENERGY_TOL = 1e-12
DELTAS = (1e-11, 1e-9, 1e-6, 1e-3, 0.25)
TANGENT = (0.0, 0.4, -0.4)
MAX_CARD = 4100
LIB_CHUNK_ELEMS = 1 << 19     # the library broadcasts M x N complex values per call


# ----------------------------------------------------------------------
# alphabets
# ----------------------------------------------------------------------
def offsets(M):
    return [0.0, math.pi / M, math.pi / 4, math.pi / 7, 1.0, -2.5, 2 * math.pi + 0.3,
            2 * math.pi * common.seed_offset(1)]


def units(tier):
    """deterministic list of work units, simplest first.  One unit = one final
    constellation table together with every history that must produce it."""
    th = tier == "thorough"
    lev = 2 if th else 1          # sample-family level, see sample_family()
    out = [{"kind": "bpsk", "M": 2, "level": lev}, {"kind": "qpsk", "M": 4, "level": lev}]
    for k in range(1, 11):
        M = 2 ** k
        for j in range(8):
            out.append({"kind": "psk", "M": M, "final": j, "level": lev if (th or k <= 8) else 0})
        if k % 2 == 0:
            out.append({"kind": "qam", "M": M, "level": lev if (th or k <= 8) else 0})
    # the 4096-point table is the heaviest object: part 0 = table, round trip, invalid indexes and the
    # constellation points as samples; parts 1..P = the P slices of the other sample families
    P = 8 if th else 4
    for part in range(P + 1):
        out.append({"kind": "qam", "M": 4 ** 6, "level": lev if th else 0, "part": [part, P]})
    for name, via in (("irregular5", "Modulator"), ("two_rings8", "Modulator"), ("line3", "Modulator"),
                      ("two_rings8", "PSK8"), ("irregular5", "QAM4"), ("line3", "PSK4")):
        out.append({"kind": "custom", "M": len(CUSTOM_TABLES[name]), "name": name, "via": via, "level": lev})
    out.append({"kind": "interplay"})
    for cls in ("PSK", "QAM"):
        for a in range(0, MAX_CARD + 1, 256):
            out.append({"kind": "ctor", "cls": cls, "lo": a, "hi": min(MAX_CARD + 1, a + 256)})
    # cheapest first (smallest counterexample first); dealing this order round-robin to the shards
    # also spreads the few heavy units over different shards
    def cost(u):
        if u["kind"] in ("ctor", "interplay"):
            return 0 if u["kind"] == "ctor" else 3000
        return u["M"] ** 2 * len(histories(u)) * (3 if u["level"] else 1)
    out.sort(key=cost)
    return out


CUSTOM_TABLES = {
    # setConstellation() called directly: any table, here normalised to unit mean energy
    "irregular5": [0.3 + 0.1j, -1 + 0.2j, 0.5 - 1.2j, 1.4 + 0.9j, -0.2 + 1.1j],
    "two_rings8": [0.5 * np.exp(1j * k * np.pi / 2) for k in range(4)]
                  + [1.3 * np.exp(1j * (np.pi / 4 + k * np.pi / 2)) for k in range(4)],
    "line3": [-1.5, 0.2, 1.0],          # real dtype table
}


def custom_table(name):
    t = np.array(CUSTOM_TABLES[name])
    return t / math.sqrt(float(np.mean(np.abs(t) ** 2)))


def histories(u):
    """all histories of a unit, as lists of ["new"|"set", phi]"""
    kind = u["kind"]
    if kind == "custom":
        return [[["custom", u["name"], u["via"]]]]
    if kind in ("bpsk", "qam"):
        return [[]]
    if kind == "qpsk":
        offs = offsets(4)
        return [[]] + [[["set", p]] for p in offs]
    offs = offsets(u["M"])
    p1 = offs[u["final"]]
    # level 0 (quick tier, M >= 512): setPhaseOffset from two initial offsets only
    starts = offs if u["level"] >= 1 else [offs[0], offs[7]]
    return [[["new", p1]]] + [[["new", p0], ["set", p1]] for p0 in starts]


def build(kind, M, hist):
    from pyphysim.modulators import fundamental as F
    if kind == "bpsk":
        return F.BPSK()
    if kind == "qam":
        return F.QAM(M)
    if kind == "custom":
        _, name, via = hist[0]
        m = {"Modulator": F.Modulator, "PSK8": lambda: F.PSK(8), "PSK4": lambda: F.PSK(4, 0.3),
             "QAM4": lambda: F.QAM(4)}[via]()
        m.setConstellation(custom_table(name))
        return m
    if kind == "qpsk":
        m = F.QPSK()
        evs = hist
    else:
        assert hist[0][0] == "new"
        m = F.PSK(M, hist[0][1])
        evs = hist[1:]
    for ev in evs:
        assert ev[0] == "set"
        m.setPhaseOffset(ev[1])
    return m


def kind_label(kind, hist):
    """label used in signatures (QPSK is a PSK)"""
    if kind in ("psk", "qpsk"):
        return "psk_after_setPhaseOffset" if any(ev[0] == "set" for ev in hist) else "psk"
    return kind


# ----------------------------------------------------------------------
# oracle
# ----------------------------------------------------------------------
def sq_dist_matrix(px, py, qx, qy):
    dx = px[:, None] - qx[None, :]
    dy = py[:, None] - qy[None, :]
    return dx * dx + dy * dy


def table_geometry(sym):
    """brute force: dmin and the Gabriel-adjacent pairs (i<j whose closed
    diametral disc holds no third point, i.e. the midpoint lies in the interior
    of their common Voronoi edge), searched among the 8 nearest neighbours of
    every point."""
    s = np.asarray(sym).astype(complex).ravel()
    M = s.size
    x, y = s.real.copy(), s.imag.copy()
    if M < 2:
        return math.inf, np.zeros((0, 2), dtype=int)
    k = min(8, M - 1)
    dmin2 = math.inf
    cand = set()
    rows = max(1, (1 << 19) // M)
    for a in range(0, M, rows):
        d2 = sq_dist_matrix(x[a:a + rows], y[a:a + rows], x, y)
        for r in range(d2.shape[0]):
            d2[r, a + r] = math.inf
        dmin2 = min(dmin2, float(d2.min()))
        nn = np.argpartition(d2, k - 1, axis=1)[:, :k]
        for r in range(nn.shape[0]):
            i = a + r
            for j in nn[r]:
                j = int(j)
                cand.add((i, j) if i < j else (j, i))
    cand = np.array(sorted(cand), dtype=int)
    keep = np.zeros(len(cand), dtype=bool)
    for a in range(0, len(cand), rows):
        ij = cand[a:a + rows]
        mx = 0.5 * (x[ij[:, 0]] + x[ij[:, 1]])
        my = 0.5 * (y[ij[:, 0]] + y[ij[:, 1]])
        r2 = 0.25 * ((x[ij[:, 0]] - x[ij[:, 1]]) ** 2 + (y[ij[:, 0]] - y[ij[:, 1]]) ** 2)
        d2 = sq_dist_matrix(mx, my, x, y)
        ar = np.arange(len(ij))
        d2[ar, ij[:, 0]] = math.inf
        d2[ar, ij[:, 1]] = math.inf
        keep[a:a + rows] = d2.min(axis=1) > r2 * (1 + 1e-6)
    return math.sqrt(dmin2), cand[keep]


def nearest(sym, samples):
    """brute-force argmin of the squared Euclidean distance, with the best and
    the second-best squared distance of every sample"""
    s = np.asarray(sym).astype(complex).ravel()
    cx, cy = s.real.copy(), s.imag.copy()
    z = np.asarray(samples).astype(complex).ravel()
    N, M = z.size, s.size
    idx = np.empty(N, dtype=np.int64)
    best = np.empty(N)
    second = np.full(N, math.inf)
    rows = max(1, (1 << 19) // M)
    for a in range(0, N, rows):
        d2 = sq_dist_matrix(z.real[a:a + rows], z.imag[a:a + rows], cx, cy)
        ar = np.arange(d2.shape[0])
        i = d2.argmin(axis=1)
        idx[a:a + rows] = i
        best[a:a + rows] = d2[ar, i]
        if M > 1:
            d2[ar, i] = math.inf
            second[a:a + rows] = d2.min(axis=1)
    return idx, best, second


def sample_family(sym, dmin, pairs, level):
    """list of (family, complex samples); deterministic function of the table.
    level 0: constellation points + boundary probes without tangential shift;
    level 1: + tangential shifts, 65x65 lattice, rays;
    level 2: + delta/dmin = 1e-10, 1e-8, 1e-4, 129x129 lattice, 256 ray angles."""
    full = level >= 1
    deltas = DELTAS + ((1e-10, 1e-8, 1e-4) if level >= 2 else ())
    nl, na = (129, 256) if level >= 2 else (65, 64)
    s = np.asarray(sym).astype(complex).ravel()
    fam = [("points", s.copy())]
    if len(pairs):
        ci, cj = s[pairs[:, 0]], s[pairs[:, 1]]
        mid = 0.5 * (ci + cj)
        n = (cj - ci) / np.abs(cj - ci)
        probes = []
        for t in (TANGENT if full else TANGENT[:1]):
            base = mid + 1j * n * (t * dmin)
            for d in deltas:
                probes.append(base + n * (d * dmin))
                probes.append(base - n * (d * dmin))
        fam.append(("boundary", np.concatenate(probes)))
    if full:
        o1, o2, o3 = common.seed_offset(2), common.seed_offset(3), common.seed_offset(4)
        gx = -1.6 + 3.2 * (np.arange(nl) + o1) / nl
        gy = -1.6 + 3.2 * (np.arange(nl) + o2) / nl
        fam.append(("lattice", (gx[None, :] + 1j * gy[:, None]).ravel()))
        ang = 2 * np.pi * (np.arange(na) + o3) / na
        fam.append(("rays", np.concatenate([r * np.exp(1j * ang) for r in (1e-12, 10.0, 1e6)])))
    return fam


_ORACLE = {}


def oracle_for(sym, level, part=(0, 0)):
    """part (p, P) of an object split over work units: p = 0 keeps only the constellation
    points as samples, p >= 1 keeps the samples p-1, p-1+P, p-1+2P, ... of the other
    families; P = 0: unsplit object, everything"""
    key = (np.ascontiguousarray(sym).tobytes(), str(np.asarray(sym).dtype), level, tuple(part))
    r = _ORACLE.get(key)
    if r is None:
        dmin, pairs = table_geometry(sym)
        fams = []
        for name, z in sample_family(sym, dmin, pairs, level):
            if part[1]:
                if (name == "points") != (part[0] == 0):
                    continue
                if name != "points":
                    z = z[part[0] - 1::part[1]]
            idx, best, second = nearest(sym, z)
            thr = TIE_REL_DMIN2 * dmin * dmin + TIE_REL_FLOAT * best if np.isfinite(dmin) else 0 * best
            tie = (second - best) < thr
            fams.append((name, z, idx, best, thr, tie))
        r = (dmin, pairs, fams)
        if len(_ORACLE) >= 4:
            _ORACLE.clear()
        _ORACLE[key] = r
    return r


def table_problem(m, M):
    """None, or (short name, observed) describing why the emitted table is not
    a valid constellation of M points"""
    sym = np.asarray(m.symbols)
    if sym.shape != (M,):
        return "wrong_size", "shape %r" % (sym.shape,)
    if not np.all(np.isfinite(sym)):
        return "nonfinite_constellation", repr(sym[:4])
    z = sym.astype(complex)
    if len(set(zip(z.real.tolist(), z.imag.tolist()))) != M:
        return "repeated_points", "%d distinct of %d" % (len(set(z.tolist())), M)
    if M:
        e = math.fsum((z.real ** 2 + z.imag ** 2).tolist()) / M
        if abs(e - 1.0) > ENERGY_TOL:
            return "mean_energy", "mean |c|^2 = %r" % e
    if m.M != M:
        return "M_property", "M=%r" % (m.M,)
    if M and abs(float(m.K) - math.log2(M)) > 1e-12:
        return "K_property", "K=%r" % (m.K,)
    return None


# ----------------------------------------------------------------------
# per-object checks
# ----------------------------------------------------------------------
# presentations of one logical 1-D sequence `a` as an array object.  The logical
# (C-order) ravel of the result is a permutation of `a`; applying the same
# presentation to np.arange(a.size) gives that permutation, so the oracle can be
# aligned element by element.  Position must be preserved by modulate/demodulate
# whatever the memory layout is.
CONTIGUOUS_FORMS = ("1d", "2d", "3d", "readonly")
NONCONTIGUOUS_FORMS = ("2d_T", "2d_F", "2d_strided", "2d_neg", "1d_neg", "1d_strided",
                       "3d_swap", "3d_T", "3d_strided")
ALL_FORMS = CONTIGUOUS_FORMS + NONCONTIGUOUS_FORMS
INDEX_DTYPES = ("int8", "uint8", "int16", "uint16", "int32", "uint32", "uint64", "intp")


def usable(form, n):
    if form.startswith("2d"):
        return n >= 2 and n % 2 == 0
    if form.startswith("3d"):
        return n >= 4 and n % 4 == 0
    return n >= 1


def present(a, form):
    n = a.size
    if form == "1d":
        return a
    if form == "readonly":
        b = a.copy()
        b.flags.writeable = False
        return b
    if form == "1d_neg":                      # negative stride
        return a[::-1]
    if form == "1d_strided":                  # every third element of a larger buffer
        big = np.zeros(3 * n, dtype=a.dtype)
        big[::3] = a
        return big[::3]
    if form == "2d":
        return a.reshape(2, n // 2)
    if form == "2d_T":                        # transposed view (F-contiguous)
        return a.reshape(n // 2, 2).T
    if form == "2d_F":                        # Fortran-ordered copy
        return np.asfortranarray(a.reshape(2, n // 2))
    if form == "2d_strided":                  # x[:, ::2] of a larger buffer
        big = np.zeros((2, n), dtype=a.dtype)
        big[:, ::2] = a.reshape(2, n // 2)
        return big[:, ::2]
    if form == "2d_neg":                      # both axes reversed
        return a.reshape(2, n // 2)[::-1, ::-1]
    if form == "3d":
        return a.reshape(n // 4, 2, 2)
    if form == "3d_swap":                     # swapped axes (neither C nor F contiguous)
        return a.reshape(n // 4, 2, 2).swapaxes(0, 1)
    if form == "3d_T":                        # fully transposed (F-contiguous)
        return a.reshape(n // 4, 2, 2).T
    if form == "3d_strided":
        big = np.zeros((n // 4, 2, 4), dtype=a.dtype)
        big[:, :, ::2] = a.reshape(n // 4, 2, 2)
        return big[:, :, ::2]
    raise KeyError(form)


def form_class(form):
    return "noncontiguous" if form in NONCONTIGUOUS_FORMS else "contiguous"


def index_sequence(M):
    """every index 0..M-1 once, in order; for M < 24 followed by an aperiodic (Beatty) tail up to
    length 24, so that even a 2-point table gets arrays long enough for a layout to matter"""
    seq = list(range(M))
    seq += [int((k + 1) * 1.618033988749895) % M for k in range(24 - M)]
    return np.array(seq, dtype=np.int64)


REDUCED_INDEX_FORMS = ("1d", "readonly", "2d_T", "2d_strided", "1d_neg", "3d_swap")
REDUCED_INDEX_DTYPES = ("int32", "uint16", "uint64")


def index_forms(M, is_bpsk, reduced=False):
    """(name, class, index object, expected shape); `reduced` (quick tier, M >= 512): one or two
    members of every presentation class instead of all of them"""
    ar = index_sequence(M)
    n = ar.size
    forms = []
    for f in (REDUCED_INDEX_FORMS if reduced else ALL_FORMS):
        if usable(f, n):
            x = present(ar, f)
            forms.append((f, form_class(f), x, x.shape))
    if M >= 2 and not reduced:
        forms.append(("3d_col", "contiguous", ar.reshape(n // 2, 2, 1), (n // 2, 2, 1)))
    for dt in (REDUCED_INDEX_DTYPES if reduced else INDEX_DTYPES):
        if M - 1 <= np.iinfo(dt).max:
            forms.append((dt, "dtype_" + ("unsigned" if dt.startswith("u") else "signed"), ar.astype(dt), (n,)))
    if usable("2d_T", n):
        forms.append(("int16_2d_T", "noncontiguous", present(ar.astype(np.int16), "2d_T"), (2, n // 2)))
    for shp in ((0,), (0, 2), (2, 0)):
        forms.append(("empty%r" % (shp,), "empty", np.zeros(shp, dtype=int), shp))
    # falsy but valid: index 0 only
    for shp in ((1,), (1, 1), (2, 2), (5,)):
        forms.append(("zeros%r" % (shp,), "all_zero_indexes", np.zeros(shp, dtype=int), shp))
    forms.append(("zeros_uint8", "all_zero_indexes", np.zeros(3, dtype=np.uint8), (3,)))
    if not is_bpsk:
        forms.append(("pylist_zero", "all_zero_indexes", [0], (1,)))
    if not is_bpsk:        # BPSK.modulate documents np.ndarray only (list > 1 is a TypeError)
        forms.append(("pylist", "pylist", [int(v) for v in ar], (n,)))
        if M >= 2 and not reduced:
            forms.append(("pylist_2d", "pylist", ar.reshape(2, n // 2).tolist(), (2, n // 2)))
    return forms


def check_roundtrip(chk, lab, m, M, spec):
    sym = np.asarray(m.symbols)
    is_bpsk = lab == "bpsk"
    for name, cls, idx, shape in index_forms(M, is_bpsk, reduced=(spec.get("level", 1) == 0)):
        case = dict(spec, what="roundtrip", form=name)
        chk.outcome("index_presentation", name)
        with chk.guard(("roundtrip", lab, cls), case):
            ref = np.array(idx, dtype=np.int64).reshape(shape)      # logical content, own copy
            tx = m.modulate(idx)
            chk.count("eval_roundtrip_indexes", int(ref.size))
            want = sym[ref]
            if np.shape(tx) != shape or not np.array_equal(np.asarray(tx), want):
                w = None
                if np.shape(tx) == shape:
                    w = [int(v) for v in np.argwhere(np.asarray(tx) != want)[0]]
                chk.fail(("modulate", lab, "not_table_lookup", cls), dict(case, first_bad_position=w),
                         observed=np.asarray(tx).ravel()[:4], expected=want.ravel()[:4])
                continue
            # demodulate exactly what modulate returned (it inherits the layout of idx) ...
            received = [("as_returned", np.asarray(tx))]
            # ... and the same symbols laid out like the index array was
            if M <= 256 and isinstance(idx, np.ndarray) and name in ALL_FORMS:
                received.append(("same_layout", present(sym[index_sequence(M)], name)))
            for how, rxin in received:
                rx = m.demodulate(rxin)
                ok = (np.shape(rx) == shape and np.asarray(rx).dtype.kind in "iu"
                      and np.array_equal(np.asarray(rx), ref))
                if not ok:
                    bad = None
                    if np.shape(rx) == shape:
                        w = np.argwhere(np.asarray(rx) != ref)
                        bad = [int(v) for v in w[0]] if w.size else None
                    chk.fail(("roundtrip", lab, "demodulate(modulate(i))!=i", cls),
                             dict(case, first_bad_position=bad, received=how),
                             observed="shape %r dtype %s first wrong position %r"
                             % (np.shape(rx), np.asarray(rx).dtype, bad), expected="identity, shape %r" % (shape,))
                    break
    # scalars: every index as 0-d array, numpy integer scalar and Python int
    case = dict(spec, what="roundtrip", form="scalars")
    with chk.guard(("roundtrip", lab, "scalars"), case):
        for k in range(M):
            for name, idx in (("0d", np.array(k)), ("np_int64", np.int64(k)), ("pyint", k)):
                tx = m.modulate(idx)
                chk.count("eval_roundtrip_indexes")
                if np.shape(tx) != () or tx != sym[k]:
                    chk.fail(("modulate", lab, "not_table_lookup", name), dict(case, index=k),
                             observed=tx, expected=sym[k])
                    continue
                rx = m.demodulate(np.asarray(tx))
                if np.shape(rx) != () or int(rx) != k:
                    chk.fail(("roundtrip", lab, "demodulate(modulate(i))!=i", name),
                             dict(case, index=k), observed=rx, expected=k)


def obj_digest(m):
    """everything the instance holds (arrays by dtype/shape/bytes)"""
    out = [type(m).__name__]
    for k in sorted(bfs.state_of(m)):
        v = bfs.state_of(m)[k]
        if isinstance(v, np.ndarray):
            out.append((k, str(v.dtype), v.shape, v.tobytes()))
        else:
            out.append((k, type(v).__name__, repr(v)))
    return tuple(out)


def public_state(m):
    """the state the property observes: class, M, K and the emitted table"""
    sym = np.asarray(m.symbols)
    return (type(m).__name__, repr(m.M), repr(float(m.K)), str(sym.dtype), sym.shape, sym.tobytes())


def coherent_after_invalid_call(chk, lab, m, spec, what):
    """tools/INVALID_CALL_POLICY.md: an invalid call is free as a call; afterwards the object must be a
    coherent modulator for the REPORTED state (symbols, M, K) and valid calls must follow that state.
    Returns False when a relation fails."""
    sym = np.asarray(m.symbols)
    case = dict(spec, what="invalid_index", after=what)
    prob = table_problem(m, int(sym.size)) if sym.ndim == 1 and sym.size else ("wrong_size", repr(sym.shape))
    if prob is not None:
        chk.fail(("after_invalid_call", what, "table_" + prob[0]), case, observed=prob[1],
                 expected="M = len(symbols), K = log2 M, distinct finite points of unit mean energy")
        return False
    pr = _probe(sym)
    ok = True
    for op in ("mod", "demod"):
        r = _do(m, op, pr)
        if r is not None:
            ok = False
            chk.fail(("after_invalid_call", what, "valid_%s_does_not_follow_reported_table" % op), case,
                     observed=r[0], expected=r[1])
    return ok


def check_invalid_indexes(chk, lab, m, M, spec):
    """returns False when the rest of the per-object checks must be skipped (the reported
    configuration is no longer the one this unit enumerates, or it is incoherent)"""
    before, dig = public_state(m), obj_digest(m)
    # C01: "Unsupported cardinalities are rejected with an exception at construction and indexes >= M
    # with ValueError, never by emitting symbols."  -> the ValueError is a hard requirement
    _check_invalid_indexes(chk, lab, m, M, spec)
    chk.outcome("invalid_call", ("modulate(index>=M)", "raised:ValueError required",
                                 "object_changed" if obj_digest(m) != dig else "object_unchanged"))
    ok = coherent_after_invalid_call(chk, lab, m, spec, "modulate_invalid_index")
    if ok and hasattr(m, "setPhaseOffset"):
        # the property says nothing about a phase offset that is not a number: free as a call
        for bad in ("x", None):
            chk.count("eval_invalid_index_calls")
            d0 = obj_digest(m)
            try:
                m.setPhaseOffset(bad)
                how = "accepted"
            except Exception as e:  # noqa
                how = "raised:" + type(e).__name__
            chk.outcome("invalid_call", ("setPhaseOffset(%r)" % (bad,), how,
                                         "object_changed" if obj_digest(m) != d0 else "object_unchanged"))
            ok = coherent_after_invalid_call(chk, lab, m, spec, "setPhaseOffset") and ok
    return ok and public_state(m) == before


def _check_invalid_indexes(chk, lab, m, M, spec):
    bad_values = [M, M + 1, 2 * M, 2 ** 31]
    inputs = []
    for v in bad_values:
        inputs.append(("pyint", v))
        inputs.append(("0d", np.array(v)))
        inputs.append(("1d_alone", np.array([v])))
        inputs.append(("1d_mixed", np.array([0, v, M - 1])))
        inputs.append(("2d_mixed", np.array([[0, M - 1], [M - 1, v]])))
        if lab != "bpsk":
            inputs.append(("pylist_mixed", [0, v]))
    for name, idx in inputs:
        case = dict(spec, what="invalid_index", form=name, index=idx)
        chk.count("eval_invalid_index_calls")
        chk.outcome("invalid_index", (lab.split("_")[0], name))
        try:
            out = m.modulate(idx)
        except ValueError:
            continue
        except Exception as e:  # noqa
            chk.fail(("modulate", "invalid_index", "raised_" + type(e).__name__), case,
                     observed="%s: %s" % (type(e).__name__, e), expected="ValueError")
            continue
        chk.fail(("modulate", "invalid_index", "symbols_emitted"), case,
                 observed=np.asarray(out).ravel()[:4], expected="ValueError")


def lib_demodulate(m, z, form):
    """call the implementation on the samples `z` (1-D) presented in the given
    form; returns a flat integer array aligned with z (whatever the layout of
    the presented array, decision k belongs to sample k)"""
    if form == "0d":
        return np.array([int(m.demodulate(np.array(v))) for v in z], dtype=np.int64)
    M = max(1, int(np.asarray(m.symbols).size))
    step = max(4, (LIB_CHUNK_ELEMS // M) & ~3)
    out = np.full(z.size, -1, dtype=np.int64)
    for a in range(0, z.size, step):
        blk = z[a:a + step]
        f = form
        if not usable(f, blk.size):
            # the tail that does not fill the shape is presented with the 1-D relative of the form
            keep = blk.size - blk.size % 4
            if keep and usable(f, keep):
                out[a:a + keep] = lib_demodulate(m, blk[:keep], f)
                blk, a = blk[keep:], a + keep
            f = "1d_neg" if form in NONCONTIGUOUS_FORMS else "1d"
            if blk.size == 0:
                continue
        arr = present(blk, f)
        pos = present(np.arange(blk.size), f)
        r = m.demodulate(arr)
        if np.shape(r) != arr.shape:
            raise AssertionError("demodulate changed the shape: %r -> %r" % (arr.shape, np.shape(r)))
        r = np.asarray(r)
        if r.dtype.kind not in "iu":
            raise AssertionError("demodulate returned dtype %s" % r.dtype)
        o = np.empty(blk.size, dtype=np.int64)
        o[np.array(pos).ravel()] = np.array(r).ravel()
        out[a:a + blk.size] = o
    return out


def compare_detection(chk, lab, m, sym, spec, family, form, z, idx, best, thr, tie, real_input=False,
                      plain_ok=None, sample_dtype=None):
    """library decisions on samples z against the oracle decisions; returns True
    when every decided sample got the oracle's index.  `plain_ok` tells whether the
    plain 1-D presentation of the same family was entirely right (then a failure
    of another presentation is a position/layout defect, not a detection defect)."""
    M = sym.size
    zin = z.real.copy() if real_input else z
    if sample_dtype is not None:
        zin = zin.astype(sample_dtype)
    got = lib_demodulate(m, zin, form)
    chk.count("eval_demod_samples", int(z.size))
    base = dict(spec, what="demodulate", family=family, form=form, real_input=bool(real_input))
    if sample_dtype is not None:
        base["sample_dtype"] = sample_dtype
    rng_bad = np.nonzero((got < 0) | (got >= M))[0]
    if rng_bad.size:
        n = int(rng_bad[0])
        chk.fail(("demodulate", lab, "index_out_of_range"), dict(base, sample=complex(z[n])),
                 observed=int(got[n]), expected="in [0,%d)" % M)
        return False
    ok = True
    wrong = np.nonzero((got != idx) & ~tie)[0]
    if wrong.size:
        ok = False
        n = int(wrong[0])
        obs = "index %d at squared distance %r" % (int(got[n]), abs(complex(sym[got[n]]) - complex(z[n])) ** 2)
        exp = "index %d at squared distance %r" % (int(idx[n]), float(best[n]))
        note = "%d of %d samples of this family/form" % (wrong.size, z.size)
        if plain_ok and form not in ("1d", "0d"):
            # no "sample" key: the replay re-runs the whole object (a single sample has no layout)
            chk.fail(("demodulate", lab, "decisions_misplaced", form_class(form) + "_array"),
                     dict(base, what="demodulate_layout", position_in_family=n, samples=int(z.size)),
                     observed=obs, expected=exp,
                     msg=note + "; the plain 1-D presentation of the same samples was decided correctly")
        else:
            chk.fail(("demodulate", lab, "not_nearest", "near_boundary" if family == "boundary" else "interior"),
                     dict(base, sample=complex(z[n])), observed=obs, expected=exp, msg=note)
    t = np.nonzero(tie)[0]
    if t.size and not (plain_ok and form not in ("1d", "0d") and not ok):
        c = sym.astype(complex)[got[t]]
        d2 = (c.real - z.real[t]) ** 2 + (c.imag - z.imag[t]) ** 2
        far = np.nonzero(d2 > best[t] + 2 * thr[t])[0]
        if far.size:
            ok = False
            n = int(t[far[0]])
            chk.fail(("demodulate", lab, "tie_resolved_to_far_point"),
                     dict(base, sample=complex(z[n])), observed=int(got[n]), expected=int(idx[n]))
    return ok


DETECTION_FORMS = tuple(f for f in ALL_FORMS if f != "1d")


def check_detection(chk, lab, m, M, spec, level):
    sym = np.asarray(m.symbols)
    part = tuple(spec.get("part", (0, 0)))
    dmin, pairs, fams = oracle_for(sym, level, part)
    # non-vacuity is measured on the oracle side, before the implementation is consulted
    hit = set()
    for family, z, idx, best, thr, tie in fams:
        hit.update(np.unique(idx[~tie]).tolist())
        chk.count("excluded_ties_" + family, int(tie.sum()))
        if family == "boundary":
            chk.count("near_boundary_samples_decided", int((~tie).sum()))
    chk.outcome("adjacent_pairs", (spec["kind"], M, int(len(pairs))))
    if part[0] == 0:
        chk.outcome("regions_hit", (spec["kind"], M, len(hit)))
        if len(hit) != M:
            chk.count("vacuity_regions_not_all_hit")
    for family, z, idx, best, thr, tie in fams:
        with chk.guard(("demodulate", lab), dict(spec, what="object", family=family)):
            # pass 1: every sample as a plain 1-D array
            plain = compare_detection(chk, lab, m, sym, spec, family, "1d", z, idx, best, thr, tie)
            # pass 2: every sample once more, in every other presentation when that is cheap,
            # otherwise the family is cut in consecutive blocks and block k uses presentation k
            n = z.size
            nf = len(DETECTION_FORMS)
            if n * M * nf <= (1 << 22):
                plan = [(f, 0, n) for f in DETECTION_FORMS]
            else:
                blk = -(-n // nf)
                blk += (-blk) % 4
                plan = [(DETECTION_FORMS[k % nf], a, min(n, a + blk)) for k, a in enumerate(range(0, n, blk))]
            for form, a, b in plan:
                chk.outcome("sample_presentation", form)
                compare_detection(chk, lab, m, sym, spec, family, form, z[a:b], idx[a:b], best[a:b],
                                  thr[a:b], tie[a:b], plain_ok=plain)
            # 0-d presentation: the first and last 8 samples of the family
            sel = np.unique(np.concatenate([np.arange(min(8, z.size)), np.arange(max(0, z.size - 8), z.size)]))
            compare_detection(chk, lab, m, sym, spec, family, "0d", z[sel], idx[sel], best[sel], thr[sel], tie[sel])
            # empty inputs keep their shape
            for shp in ((0,), (0, 3), (2, 0)):
                r = m.demodulate(np.zeros(shp, dtype=complex))
                if np.shape(r) != shp or np.asarray(r).dtype.kind not in "iu":
                    chk.fail(("demodulate", lab, "empty_input"), dict(spec, what="object", shape=list(shp)),
                             observed="shape %r dtype %s" % (np.shape(r), np.asarray(r).dtype),
                             expected="empty integer array of shape %r" % (shp,))
            # single-precision samples: the samples ARE the rounded values -> own oracle run
            if family != "boundary" and level >= 1:
                z32 = z.astype(np.complex64).astype(complex)
                i2, b2, s2 = nearest(sym, z32)
                th2 = TIE_REL_DMIN2 * dmin * dmin + TIE_REL_FLOAT * b2
                ok32 = compare_detection(chk, lab, m, sym, spec, family, "1d", z32, i2, b2, th2, (s2 - b2) < th2,
                                         sample_dtype="complex64")
                compare_detection(chk, lab, m, sym, spec, family, "2d_T", z32, i2, b2, th2, (s2 - b2) < th2,
                                  sample_dtype="complex64", plain_ok=ok32)
            if lab == "bpsk":
                # real-dtype input: the real parts alone (imaginary part dropped -> own oracle run)
                for dt in ("float64", "float32"):
                    zr = z.real.astype(dt).astype(float) + 0j
                    i2, b2, s2 = nearest(sym, zr)
                    th2 = TIE_REL_DMIN2 * dmin * dmin + TIE_REL_FLOAT * b2
                    okr = compare_detection(chk, lab, m, sym, spec, family, "1d", zr, i2, b2, th2, (s2 - b2) < th2,
                                            real_input=True, sample_dtype=dt)
                    compare_detection(chk, lab, m, sym, spec, family, "2d_T", zr, i2, b2, th2, (s2 - b2) < th2,
                                      real_input=True, sample_dtype=dt, plain_ok=okr)
    return dmin


def check_buffer_reuse(chk, lab, m, M, spec):
    """no state may survive a call: ONE index buffer / ONE sample buffer object is rewritten in
    place between calls on the same modulator; arguments must be bit-identical after every call;
    arrays returned earlier must not change later and writing into a returned array must not
    reach the table."""
    sym = np.asarray(m.symbols)
    dmin, _ = table_geometry(sym)
    csym = sym.astype(complex)
    ibuf = index_sequence(M)[:64].copy()
    n = ibuf.size
    case = dict(spec, what="buffer_reuse")
    held = []
    rewrites = [("initial", lambda b: None),
                ("buf[:] = buf[::-1]", lambda b: b.__setitem__(slice(None), b[::-1].copy())),
                ("buf[:] = roll(buf, 5)", lambda b: b.__setitem__(slice(None), np.roll(b, 5))),
                ("buf[0] = buf[-1]", lambda b: b.__setitem__(0, b[-1]))]
    # a sample buffer: the symbols of ibuf pulled 30 % of dmin towards the next table entry
    def samples_for(idx):
        return csym[idx] + 0.3 * dmin * np.exp(1j * (0.7 + idx))
    sbuf = samples_for(ibuf)
    for step, rw in rewrites:
        rw(ibuf)
        snap = ibuf.copy()
        tx = m.modulate(ibuf)
        chk.count("eval_buffer_reuse_calls")
        if ibuf.tobytes() != snap.tobytes():
            chk.fail(("argument_modified", lab, "modulate"), dict(case, step=step), observed=ibuf.copy(), expected=snap)
            ibuf[:] = snap
        if np.shape(tx) != (n,) or not np.array_equal(np.asarray(tx), sym[snap]):
            chk.fail(("modulate", lab, "same_buffer_new_content"), dict(case, step=step, indexes=snap),
                     observed=np.asarray(tx).ravel()[:4], expected=sym[snap][:4],
                     msg="same modulator, same index array object, content rewritten in place")
        if isinstance(tx, np.ndarray):
            held.append(("modulate@" + step, tx, tx.copy()))
        sbuf[:] = samples_for(snap)
        ssnap = sbuf.copy()
        want, best, second = nearest(sym, ssnap)
        thr = TIE_REL_DMIN2 * dmin * dmin + TIE_REL_FLOAT * best
        rx = m.demodulate(sbuf)
        chk.count("eval_buffer_reuse_calls")
        if sbuf.tobytes() != ssnap.tobytes():
            chk.fail(("argument_modified", lab, "demodulate"), dict(case, step=step), observed=sbuf[:4].copy(),
                     expected=ssnap[:4])
            sbuf[:] = ssnap
        decided = (second - best) >= thr
        if np.shape(rx) != (n,) or np.any((np.asarray(rx) != want) & decided):
            chk.fail(("demodulate", lab, "same_buffer_new_content"), dict(case, step=step, samples=ssnap),
                     observed=np.asarray(rx).ravel()[:8], expected=want[:8],
                     msg="same modulator, same sample array object, content rewritten in place")
        if isinstance(rx, np.ndarray):
            held.append(("demodulate@" + step, rx, rx.copy()))
    for desc, obj, snapv in held:
        if obj.tobytes() != snapv.tobytes():
            chk.fail(("returned_array_changed_by_later_call", lab), dict(case, result=desc),
                     observed=obj[:4], expected=snapv[:4])
            break
    # writing into returned arrays must not reach the modulator
    for desc, obj, snapv in held:
        if obj.flags.writeable:
            obj[...] = 0
    tx = m.modulate(ibuf)
    if not np.array_equal(np.asarray(tx), sym[ibuf]) or not np.array_equal(np.asarray(m.symbols), sym):
        chk.fail(("returned_array_aliases_table", lab), case, observed=np.asarray(tx).ravel()[:4], expected=sym[ibuf][:4])
    chk.outcome("buffer_reuse", (spec["kind"], len(held)))


def check_object(chk, u, hist):
    kind, M, level = u["kind"], u["M"], int(u["level"])
    lab = kind_label(kind, hist)
    spec = {"kind": kind, "M": M, "history": hist, "level": level}
    first_part = True
    if "part" in u:
        spec["part"] = [int(v) for v in u["part"]]
        first_part = spec["part"][0] == 0
    with chk.guard(("object", lab), dict(spec, what="object")):
        m = build(kind, M, hist)
        chk.count("eval_objects")
        prob = table_problem(m, M)
        if prob is not None:
            chk.fail(("table", lab, prob[0]), dict(spec, what="object"), observed=prob[1],
                     expected="%d distinct finite points, mean energy 1 +- %g, M, K=log2 M" % (M, ENERGY_TOL))
            if prob[0] in ("wrong_size", "nonfinite_constellation", "repeated_points"):
                return      # no well-defined nearest point / index set
        sym = np.asarray(m.symbols)
        chk.nontriv((kind, M, bfs.digest(sym, 9)))
        if first_part:
            check_roundtrip(chk, lab, m, M, spec)
            go_on = False
            with chk.guard(("modulate", "invalid_index", lab), dict(spec, what="object")):
                go_on = check_invalid_indexes(chk, lab, m, M, spec)
            if not go_on:
                chk.count("objects_reconfigured_by_invalid_calls")
                return
            with chk.guard(("buffer_reuse", lab), dict(spec, what="object")):
                check_buffer_reuse(chk, lab, m, M, spec)
        check_detection(chk, lab, m, M, spec, level)
        # the table itself must not have been modified by any of the calls
        if not np.array_equal(sym, np.asarray(build(kind, M, hist).symbols)):
            chk.fail(("table", lab, "changed_by_calls"), dict(spec, what="object"))


# ----------------------------------------------------------------------
# several live objects, alternative entry points, long setPhaseOffset chains
# ----------------------------------------------------------------------
def _probe(sym):
    """small deterministic workload for one table: indexes, samples and the oracle's decisions"""
    sym = np.asarray(sym)
    M = sym.size
    dmin, _ = table_geometry(sym)
    idx = index_sequence(M)[:32]
    z = sym.astype(complex)[idx] + 0.3 * dmin * np.exp(1j * (0.7 + idx))
    want, best, second = nearest(sym, z)
    thr = TIE_REL_DMIN2 * dmin * dmin + TIE_REL_FLOAT * best
    return dict(sym=sym.copy(), idx=idx, z=z, want=want, decided=(second - best) >= thr)


def _do(m, op, pr):
    """run one operation of the workload on the object; returns None when it agrees with the oracle"""
    if op == "mod":
        tx = m.modulate(pr["idx"].copy())
        if np.shape(tx) != pr["idx"].shape or not np.array_equal(np.asarray(tx), pr["sym"][pr["idx"]]):
            return np.asarray(tx).ravel()[:4], pr["sym"][pr["idx"]][:4]
    elif op == "demod":
        rx = m.demodulate(pr["z"].copy())
        if np.shape(rx) != pr["z"].shape or np.any((np.asarray(rx) != pr["want"]) & pr["decided"]):
            return np.asarray(rx).ravel()[:8], pr["want"][:8]
    elif op == "peek":               # name / repr / properties must be pure observers
        repr(m), m.name, m.M, m.K
    return None


def run_interplay(chk):
    import itertools
    from pyphysim.modulators import fundamental as F
    pi = math.pi
    specs = {"psk4": ("psk", 4, [["new", 0.0]]), "qam4": ("qam", 4, []), "psk16": ("psk", 16, [["new", 0.0]]),
             "qam16": ("qam", 16, []), "psk64": ("psk", 64, [["new", pi / 7]]), "qam64": ("qam", 64, []),
             "psk8a": ("psk", 8, [["new", 0.0]]), "psk8b": ("psk", 8, [["new", 1.0]]),
             "psk8set": ("psk", 8, [["new", 0.0], ["set", -2.5]]), "bpsk": ("bpsk", 2, []),
             "qpsk": ("qpsk", 4, []), "psk4q": ("psk", 4, [["new", pi / 4]]), "psk2": ("psk", 2, [["new", 0.0]])}
    pairs = [("psk4", "qam4"), ("psk16", "qam16"), ("psk64", "qam64"), ("psk8a", "psk8b"), ("psk8a", "psk8set"),
             ("bpsk", "qpsk"), ("psk8a", "psk16"), ("qpsk", "psk4q"), ("bpsk", "psk2"), ("qam16", "qam64")]
    # (2) several live objects, every order of the four operations, twice in a row (depth 8),
    #     both construction orders; expectations come from the table snapshot taken at construction
    for na, nb in pairs:
        for first, second in ((na, nb), (nb, na)):
            case = {"kind": "interplay", "what": "pair", "objects": [first, second]}
            with chk.guard(("interplay", "pair"), case):
                objs, probes, digests = {}, {}, {}
                for nm in (first, second):
                    objs[nm] = build(*specs[nm])
                    probes[nm] = _probe(objs[nm].symbols)
                    digests[nm] = public_state(objs[nm])
                ops = [(first, "mod"), (second, "mod"), (first, "demod"), (second, "demod")]
                for perm in itertools.permutations(ops):
                    seq = list(perm) + [(first, "peek"), (second, "peek")] + list(perm)
                    for step, (nm, op) in enumerate(seq):
                        chk.count("eval_interplay_ops")
                        r = _do(objs[nm], op, probes[nm])
                        if r is not None:
                            chk.fail(("interplay", "pair", "result_wrong_with_other_live_object", op),
                                     dict(case, sequence=[list(x) for x in seq], step=step), observed=r[0], expected=r[1])
                            break
                    else:
                        continue
                    break
                for nm in (first, second):
                    if public_state(objs[nm]) != digests[nm]:
                        chk.fail(("interplay", "pair", "object_changed_by_calls_on_other_object"), dict(case, object=nm))
                    lone = build(*specs[nm])
                    if public_state(lone) != digests[nm]:
                        chk.fail(("interplay", "pair", "fresh_object_differs_from_earlier_one"), dict(case, object=nm))
            chk.outcome("interplay", ("pair", first, second))
    # (3) alternative entry points
    case = {"kind": "interplay", "what": "entry_points"}
    with chk.guard(("interplay", "entry_points"), case):
        q, p = F.QPSK(), F.PSK(4, pi / 4)
        if not (np.array_equal(q.symbols, p.symbols) and q.M == p.M and q.K == p.K):
            chk.fail(("interplay", "entry_points", "QPSK!=PSK(4,pi/4)", "table"), case, observed=q.symbols, expected=p.symbols)
        pr = _probe(p.symbols)
        for op in ("mod", "demod"):
            if _do(q, op, pr) is not None:
                chk.fail(("interplay", "entry_points", "QPSK!=PSK(4,pi/4)", op), case)
        b, p2 = F.BPSK(), F.PSK(2)
        lat = (np.linspace(-1.6, 1.6, 33)[None, :] + 0.013 + 1j * (np.linspace(-1.6, 1.6, 33)[:, None] + 0.007)).ravel()
        if not np.array_equal(np.asarray(b.symbols).astype(complex), np.asarray(p2.symbols)):
            chk.fail(("interplay", "entry_points", "BPSK!=PSK(2)", "table"), case, observed=b.symbols, expected=p2.symbols)
        if not np.array_equal(b.demodulate(lat), p2.demodulate(lat)):
            chk.fail(("interplay", "entry_points", "BPSK!=PSK(2)", "demod"), case)
        if not np.array_equal(b.modulate(np.array([0, 1, 1, 0])), np.real(p2.modulate(np.array([0, 1, 1, 0])))):
            chk.fail(("interplay", "entry_points", "BPSK!=PSK(2)", "mod"), case)
        # (4) phase offset 0 / 0.0 / -0.0 / default are the same table; 2 pi the same points up to rounding;
        #     constructor and setPhaseOffset must place the same point SET for the same offset
        for M in (2, 4, 8, 16):
            base_t = np.asarray(F.PSK(M).symbols)
            for zero in (0, 0.0, -0.0, False):
                if not np.array_equal(np.asarray(F.PSK(M, zero).symbols), base_t):
                    chk.fail(("interplay", "entry_points", "PSK(M,0)!=PSK(M)"), dict(case, M=M, offset=repr(zero)))
            if np.max(np.abs(np.asarray(F.PSK(M, 2 * pi).symbols) - base_t)) > 1e-14:
                chk.fail(("interplay", "entry_points", "PSK(M,2pi)!=PSK(M)"), dict(case, M=M))
            for phi in offsets(M) + [0, 0.0, -0.0, 2 * pi]:
                a = np.asarray(F.PSK(M, phi).symbols)
                o = F.PSK(M, 0.3)
                o.setPhaseOffset(phi)
                c = np.asarray(o.symbols)
                chk.count("eval_interplay_ops")
                # same set of points: every point of one table has a partner in the other
                d = np.abs(a[:, None] - c[None, :])
                if d.min(axis=1).max() > 1e-12 or d.min(axis=0).max() > 1e-12:
                    chk.fail(("interplay", "entry_points", "PSK(M,phi)_and_setPhaseOffset(phi)_place_different_points"),
                             dict(case, M=M, offset=repr(phi)), observed=a[:4], expected=c[:4])
    chk.outcome("interplay", ("entry_points",))
    # (5) long chains of setPhaseOffset on one object: every step compared with a two-step object
    for M in (2, 4, 8, 64):
        case = {"kind": "interplay", "what": "chain", "M": M}
        with chk.guard(("interplay", "chain"), case):
            m = F.PSK(M, 0.3)
            chain = offsets(M) + [0, 0.0, 2 * pi] + offsets(M)[::-1]
            for step, phi in enumerate(chain):
                m.setPhaseOffset(phi)
                ref = F.PSK(M, 1.1)
                ref.setPhaseOffset(phi)
                chk.count("eval_interplay_ops")
                if public_state(m) != public_state(ref):
                    chk.fail(("interplay", "chain", "table_depends_on_earlier_setPhaseOffset_calls"),
                             dict(case, step=step, offsets=[repr(x) for x in chain[:step + 1]]),
                             observed=np.asarray(m.symbols)[:4], expected=np.asarray(ref.symbols)[:4])
                    break
                pr = _probe(ref.symbols)
                for op in ("mod", "demod", "peek", "demod", "mod"):
                    r = _do(m, op, pr)
                    if r is not None:
                        chk.fail(("interplay", "chain", "result_wrong_after_setPhaseOffset_chain", op),
                                 dict(case, step=step), observed=r[0], expected=r[1])
        chk.outcome("interplay", ("chain", M))


def supported(cls, M):
    if M < 2 or M & (M - 1):
        return False
    return True if cls == "PSK" else (M >= 4 and (M.bit_length() - 1) % 2 == 0)


def check_ctor(chk, cls, M):
    from pyphysim.modulators import fundamental as F
    case = {"kind": "ctor", "what": "ctor", "cls": cls, "M": M}
    with chk.guard(("construct", cls), case):
        chk.count("eval_constructions")
        sup = supported(cls, M)
        rng = "M<2" if M < 2 else ("supported_M" if sup else "unsupported_M")
        try:
            m = getattr(F, cls)(M)
        except Exception as e:  # noqa
            chk.outcome("ctor", (cls, "raised " + type(e).__name__))
            if sup:
                chk.fail(("construct", cls, "supported_M_rejected"), case,
                         observed="%s: %s" % (type(e).__name__, e), expected="valid constellation")
            return
        prob = table_problem(m, M)
        if prob is not None:
            chk.outcome("ctor", (cls, "invalid table"))
            chk.fail(("construct", cls, rng, prob[0]), case, observed=prob[1],
                     expected="an exception" if not sup else "valid constellation of %d points" % M)
        elif M >= 2 and not sup:
            chk.outcome("ctor", (cls, "valid table, unsupported M"))
            chk.fail(("construct", cls, "unsupported_M_accepted"), case,
                     observed="valid %d-point table" % M, expected="an exception")
        else:
            chk.outcome("ctor", (cls, "valid table"))


def run_unit(chk, u):
    if u["kind"] == "interplay":
        run_interplay(chk)
        return
    if u["kind"] == "ctor":
        for M in range(u["lo"], u["hi"]):
            check_ctor(chk, u["cls"], M)
        return
    for hist in histories(u):
        check_object(chk, u, hist)


# ----------------------------------------------------------------------
def main(chk: Check):
    chk.assume("a received sample is an excluded tie when its two smallest squared distances differ by "
               "less than 1e-12*dmin^2 + 64*2^-52*(smallest squared distance); on a tie the library must "
               "still return a point within that margin")
    chk.assume("boundary probes use the Gabriel-adjacent pairs (midpoint in the interior of the common "
               "Voronoi edge) among the 8 nearest neighbours of every point; for PSK and square QAM "
               "these are all pairs sharing a Voronoi edge")
    chk.assume("index inputs: numpy integer arrays/scalars of every integer dtype and Python ints, plus "
               "(nested) Python lists for the table-lookup modulators (BPSK.modulate documents np.ndarray and "
               "evaluates `list > 1`); tuples (numpy reads them as multi-axis indexes), boolean masks and "
               "negative indexes are outside the property")
    chk.assume("call sequences: on every object one index buffer and one sample buffer object are rewritten in "
               "place between calls; results follow the new content, arguments stay bit-identical, arrays "
               "returned earlier do not change and writing into them does not reach the table")
    chk.assume("for tables with fewer than 24 points the index arrays are 0..M-1 followed by an aperiodic tail "
               "up to length 24, so that memory layout matters even for BPSK")
    chk.extra["array_presentations"] = list(ALL_FORMS) + ["0d", "empty"]
    chk.extra["index_dtypes"] = list(INDEX_DTYPES)
    chk.extra["tie_margin_rel_dmin2"] = TIE_REL_DMIN2
    chk.extra["tie_margin_rel_float"] = TIE_REL_FLOAT
    chk.extra["energy_tolerance"] = ENERGY_TOL
    chk.extra["cardinalities_scanned"] = "0..%d for PSK and QAM" % MAX_CARD
    if chk.tier != "thorough":
        chk.extra["quick_tier_bound"] = ("PSK 512/1024 and QAM 1024/4096: constellation points and "
                                         "boundary probes (no tangential shifts) only, setPhaseOffset from 2 of "
                                         "the 8 initial offsets, one or two index presentations per class, no "
                                         "complex64 samples; lattice, rays, every presentation and all 8x8 "
                                         "offset histories for PSK <= 256, QAM <= 256; the thorough tier has "
                                         "no such restriction")

    def worker(i, n, c):
        for u in shard(units(c.tier), i, n):
            run_unit(c, u)

    run_shards(chk, worker)
    chk.sample({"kind": "psk", "M": 8, "history": [["new", 0.0], ["set", 1.0]], "what": "object"})
    chk.sample({"kind": "qam", "M": 16, "history": [], "what": "demodulate", "family": "boundary",
                "sample": complex(0.31622776601683794, 0.0)})
    chk.sample({"kind": "ctor", "cls": "PSK", "M": 6})
    if chk.counters.get("vacuity_regions_not_all_hit"):
        raise Broken("vacuous: %d objects whose sample family did not reach every decision region"
                     % chk.counters["vacuity_regions_not_all_hit"])
    chk.require_outcomes("regions_hit", 18)
    chk.require_outcomes("ctor", 4)
    chk.require_outcomes("invalid_index", 12)
    chk.require_outcomes("index_presentation", 30)
    chk.require_outcomes("interplay", 8)
    chk.require_outcomes("buffer_reuse", 4)
    chk.require_outcomes("sample_presentation", len(DETECTION_FORMS))
    if not chk.counters.get("near_boundary_samples_decided"):
        raise Broken("vacuous: no decided near-boundary sample")


def replay(case, chk: Check):
    if case.get("kind") == "ctor":
        check_ctor(chk, case["cls"], int(case["M"]))
        return
    if case.get("kind") == "interplay":
        run_interplay(chk)
        return
    kind, M = case["kind"], int(case["M"])
    if kind == "custom":
        hist = [list(ev) for ev in case["history"]]
    else:
        hist = [[ev[0], float(ev[1])] for ev in case.get("history", [])]
    u = {"kind": kind, "M": M, "level": int(case.get("level", 1))}
    if "part" in case:
        u["part"] = [int(v) for v in case["part"]]
    if case.get("what") == "demodulate" and "sample" in case:
        lab = kind_label(kind, hist)
        spec = {"kind": kind, "M": M, "history": hist, "level": u["level"]}
        with chk.guard(("object", lab), dict(spec, what="object")):
            m = build(kind, M, hist)
            sym = np.asarray(m.symbols)
            dmin, _ = table_geometry(sym)
            z = np.array([complex(case["sample"])])
            if case.get("real_input"):
                z = z.real + 0j
            idx, best, second = nearest(sym, z)
            thr = TIE_REL_DMIN2 * dmin * dmin + TIE_REL_FLOAT * best
            form = case.get("form", "1d")
            compare_detection(chk, lab, m, sym, spec, case.get("family", "points"),
                              "0d" if form == "0d" else "1d", z, idx, best, thr, (second - best) < thr,
                              real_input=bool(case.get("real_input")), sample_dtype=case.get("sample_dtype"))
        return
    check_object(chk, u, hist)
