"""C19 - cell geometry: containment, user placement and cluster layout are exact.

Part A  (E1) containment: every shape kind x position x radius x rotation; the
        library's `is_point_inside_shape` against the crossing-number test on the
        shape's OWN `vertices` (disc for Circle) on a 29x29 (thorough 41x41) lattice over the
        bounding disc (irrational offset; points within 1e-9 r of an edge are
        ties, excluded and counted) plus boundary-seeking probes 1e-6 r either
        side of every edge.  The own vertices are also compared with an
        independent vertex model (regular hexagon / rotated rectangle / three
        sector hexagons / 12-gon) so that a shape that is not the shape it claims
        to be is noticed.
Part B  (E1) border points: angles -180..180 step 3.7 deg plus the multiples of
        15 deg, ratios {None, 1, 0.999, 0.5, 0}: on the polygon boundary, in
        exactly the direction of the angle, linear in the ratio.
Part C  (E2) random users: `numpy.random.random_sample` is a scripted seam; every
        draw is a choice point over {default, 0, .07, .25, .5, .77, .93, 1-2^-53};
        all answer vectors with <= D non-default draws are executed
        (`add_random_users(n, ...)`, `add_random_users_in_sector`); afterwards every
        user is inside the cell's own polygon (and the requested sector) and
        >= min_dist*r from the centre.  The default answers address 12 directions
        at 0.7035 r, those the ORACLE accepts for the cell at hand first; a run that
        exceeds the horizon is reported as a livelock.  Bounds (measured cost:
        17k..98k executions per configuration at D=4): quick D<=2 with two users on
        a covering set of 210 configurations (+36 with two users), D<=3 on 36, D<=4
        on 2; thorough D<=2 and D<=3 on all 1782, D<=4 on 108, D<=5 on 4 -- the
        evidence lists them.
Part D  (E1) clusters: sizes x cell types x radii x positions x rotations:
        congruent cells, centroid, nearest-neighbour distance, shared edges, no
        overlap, rotation covariance, wrap-around lattice (19 cells), user-to-cell
        distance matrices against a double loop.
Part E  (E1) generate_random_points_in_circle / _rectangle for every vector of
        scripted draws over the alphabet.
Part F  setter histories on ONE object: every sequence of <= 2 (thorough 3) events
        out of {pos, radius, rotation (, inner_pos for CellWrap)} x 2 values, a full
        query after the constructor and after every event, compared with the
        vertex model and with a FRESH object built with the current parameters
        (vertices, attributes, containment probes, border points, users moved
        with the cell, scripted placement at the end).
Part G  every ordered pair (thorough: + triples) of cluster constructions out of 12
        specifications, each sequence in a fresh forked process (class-level
        caches), every cluster checked like in D.
Part H  aliasing: returned arrays scribbled over and re-queried; argument arrays
        (incl. non-contiguous views) unchanged, reused, modified between calls.
Part I  dtypes: int / numpy integer / numpy float scalars for positions, sizes,
        rotations, angles, points, counts against the float-parameter object; and the
        scale family r in {1e-6, 1e6} runs through A-D and C.
"""
import contextlib
import itertools
import math
import os
import traceback

import numpy as np

from vmc import bfs as vbfs
from vmc import common
from vmc.choice import Ctx, Horizon, check_determinism
from vmc.parallel import run_shards, shard
from vmc.report import Broken, Check
from vmc.seams import ScriptedUniform

PID = "C19"
LEVEL = "exploration"
ENGINE = ("E1 product enumeration (containment, border points, clusters, distance matrices, "
          "point processes) + E2 deviation-bounded exploration of scripted numpy.random answers "
          "(random user placement)")
RULE = ("A/B: every shape kind {Hexagon, Rectangle 1:1 and 4:1, Circle, Cell, Cell3Sec, CellSquare, "
        "CellWrap of each cell} x pos x radius x rotation; A: every point of a 29x29 (thorough: 41x41) lattice over the "
        "bounding disc + probes 1e-6 r either side of every edge, oracle = crossing number on the "
        "shape's own vertices (disc for Circle); B: every angle x ratio, oracle = distance to the own "
        "polygon boundary, direction, linearity in the ratio. C: every vector of scripted "
        "random_sample answers with <= D non-default draws (E2), oracle = crossing number + centre "
        "distance of every placed user. D: every cluster size x type x radius x pos x rotation, "
        "oracle = brute-force pairwise distances / shared vertices / interior probes. E: every draw "
        "vector over the alphabet. F: every setter history <= depth on one object vs model and fresh "
        "object. G: every ordered pair/triple of cluster constructions in a fresh process. H/I: aliasing, "
        "dtype and scale families. Quick uses a covering design over pos x radius x rotation, thorough the "
        "full product. A case is non-trivial when it decides something: a lattice with "
        "points on both sides, an angle hitting a polygon edge, a placement with a rejected attempt "
        "or an accepted non-default draw, a cluster with > 1 cell; distinct = distinct configuration "
        "(and distinct placement outcome for C)")

TOL = 1e-9                 # relative to the shape radius: ties, boundary distance, equalities
PROBE = 1e-6               # boundary-seeking probes this far (x r) either side of an edge
POS = [0j, 1 + 2j, -3.5 + 0.25j]
RADII = [1.0, 0.5, 10.0]
ROT = [0, 30, 45, 90, 17, -30, -90, 123.4, 360, 720, -720]
ALPHA = [0.0, 0.07, 0.25, 0.5, 0.77, 0.93, 1.0 - 2.0 ** -53]
DEFAULT_RATIO = 0.7035     # default draws address 12 directions at this fraction of the radius
NDIR = 12
MIN_DIST = [0.0, 0.3, 0.7]
SHAPE_KINDS = ["Hexagon", "Rectangle1x1", "Rectangle4x1", "Circle", "Cell", "Cell3Sec", "CellSquare",
               "CellWrap(Cell)", "CellWrap(Cell3Sec)", "CellWrap(CellSquare)"]
WRAP_OFFSET = 2.5 - 1.5j   # (x radius) where the CellWrap is put relative to the wrapped cell


MISSING = object()


def _private(obj, *names, default=MISSING):
    """an ORACLE INPUT that has no public accessor: first of the candidate attribute names that exists
    (default / MISSING if none does -- the caller then skips THAT relation and counts `oracle_input_unavailable`)"""
    for nm in names:
        try:
            return getattr(obj, nm)
        except AttributeError:
            continue
    return default


def unavailable(chk, what):
    chk.count("oracle_input_unavailable")
    chk.outcome("oracle_input_unavailable", what)


@contextlib.contextmanager
def guard(chk, sig, case):
    """chk.guard, except that (i) an exception whose innermost frame is in /verif -- the check's own code -- is the
    check's fault (Broken, exit 2), never a verdict about the property; (ii) the Horizon signal of a scripted
    stream (a placement loop that does not terminate) is a violation with its own signature.  Exceptions raised
    inside pyphysim by VALID calls stay violations (reported by chk.guard)."""
    with chk.guard(sig, case):
        try:
            yield
        except (KeyboardInterrupt, SystemExit, Broken):
            raise
        except Horizon as e:
            chk.fail(tuple(sig) + ("placement_does_not_terminate",), case, observed=str(e),
                     expected="the rejection loop accepts a candidate of the default / seeded stream")
        except BaseException as e:  # noqa
            tb = traceback.extract_tb(e.__traceback__)
            if tb and os.path.abspath(tb[-1].filename).startswith(common.VERIF_DIR + os.sep):
                raise Broken("exception in the check's own code (%s:%d %s): %s: %s; case %r" % (
                    os.path.basename(tb[-1].filename), tb[-1].lineno, tb[-1].name, type(e).__name__, e,
                    {k: case[k] for k in list(case)[:6]} if isinstance(case, dict) else case)) from e
            raise


def scribble(arr, delta):
    """the caller overwrites what it was handed, if that is possible at all (a read-only array or a tuple cannot
    be corrupted: nothing to test) -> True if something was written"""
    if not isinstance(arr, np.ndarray) or not arr.flags.writeable:
        return False
    arr += delta
    return True


def rot_c(z, deg):
    return z * np.exp(1j * math.radians(deg))


# ----------------------------------------------------------------------
# reference geometry (independent of the library)
# ----------------------------------------------------------------------
def crossing_inside(poly, pts):
    """crossing-number (even-odd) test, vectorised over `pts`; poly = complex vertices in order"""
    pts = np.atleast_1d(np.asarray(pts, dtype=complex))
    x, y = pts.real, pts.imag
    inside = np.zeros(pts.shape, dtype=bool)
    n = len(poly)
    for i in range(n):
        a, b = complex(poly[i]), complex(poly[(i + 1) % n])
        if a.imag == b.imag:
            continue
        straddle = (a.imag > y) != (b.imag > y)
        xi = a.real + (y - a.imag) * (b.real - a.real) / (b.imag - a.imag)
        inside ^= straddle & (xi > x)
    return inside


def boundary_distance(poly, pts):
    """(distance to the nearest edge segment, index of that edge), vectorised"""
    pts = np.atleast_1d(np.asarray(pts, dtype=complex))
    best = np.full(pts.shape, np.inf)
    which = np.zeros(pts.shape, dtype=int)
    n = len(poly)
    for i in range(n):
        a, b = complex(poly[i]), complex(poly[(i + 1) % n])
        ab = b - a
        L2 = abs(ab) ** 2
        if L2 == 0:
            d = np.abs(pts - a)
        else:
            t = ((pts - a) * np.conj(ab)).real / L2
            t = np.clip(t, 0.0, 1.0)
            d = np.abs(pts - (a + t * ab))
        upd = d < best
        best = np.where(upd, d, best)
        which = np.where(upd, i, which)
    return best, which


def inside1(poly, p):
    """scalar crossing-number test (poly: list of complex)"""
    x, y = p.real, p.imag
    inside = False
    n = len(poly)
    for i in range(n):
        a, b = poly[i], poly[(i + 1) % n]
        if (a.imag > y) != (b.imag > y):
            if a.real + (y - a.imag) * (b.real - a.real) / (b.imag - a.imag) > x:
                inside = not inside
    return inside


def bdist1(poly, p, with_edge=False):
    """scalar distance to the nearest edge segment (optionally with the index of that edge)"""
    best = math.inf
    which = 0
    n = len(poly)
    for i in range(n):
        a, b = poly[i], poly[(i + 1) % n]
        ab = b - a
        L2 = ab.real * ab.real + ab.imag * ab.imag
        if L2 == 0:
            d = abs(p - a)
        else:
            ap = p - a
            t = (ap.real * ab.real + ap.imag * ab.imag) / L2
            t = 0.0 if t < 0 else (1.0 if t > 1 else t)
            d = abs(ap - t * ab)
        if d < best:
            best = d
            which = i
    return (best, which) if with_edge else best


def polygon_area(poly):
    p = np.asarray(poly, dtype=complex)
    q = np.roll(p, -1)
    return 0.5 * float(np.sum(p.real * q.imag - q.real * p.imag))


def model_vertices(kind, pos, r, rot):
    """independent vertex model -> (set of vertices, expected |area|)"""
    base = kind
    if kind.startswith("CellWrap("):
        base = kind[9:-1]
    if base in ("Hexagon", "Cell"):
        v = [pos + r * np.exp(1j * math.radians(rot + 60.0 * k)) for k in range(6)]
        return np.array(v), 1.5 * math.sqrt(3) * r * r
    if base in ("Rectangle1x1", "CellSquare"):
        h = r / math.sqrt(2)
        v = [pos + rot_c(complex(sx * h, sy * h), rot) for sx, sy in ((-1, -1), (1, -1), (1, 1), (-1, 1))]
        return np.array(v), 4 * h * h
    if base == "Rectangle4x1":
        h = r / math.sqrt(17)
        w = 4 * h
        v = [pos + rot_c(complex(sx * w, sy * h), rot) for sx, sy in ((-1, -1), (1, -1), (1, 1), (-1, 1))]
        return np.array(v), 4 * w * h
    if base == "Circle":
        return np.array([pos + r * np.exp(1j * math.radians(30.0 * k)) for k in range(12)]), 3.0 * r * r
    if base == "Cell3Sec":
        v = []
        for c in sector_centres(pos, r, rot):
            for k in range(6):
                p = c + (r / math.sqrt(3)) * np.exp(1j * math.radians(rot - 30 + 60.0 * k))
                if abs(p - pos) > 1e-6 * r and all(abs(p - q) > 1e-6 * r for q in v):
                    v.append(p)
        return np.array(v), 1.5 * math.sqrt(3) * r * r
    raise KeyError(kind)


def sector_centres(pos, r, rot):
    s = r / math.sqrt(3)
    return [pos + rot_c(s * np.exp(1j * math.radians(a)), rot) for a in (210.0, 330.0, 90.0)]


def sector_hexagon(pos, r, rot, sector):
    c = sector_centres(pos, r, rot)[sector - 1]
    s = r / math.sqrt(3)
    return c, s, np.array([c + s * np.exp(1j * math.radians(rot - 30 + 60.0 * k)) for k in range(6)])


def same_point_set(a, b, tol):
    a, b = np.asarray(a, dtype=complex).ravel(), np.asarray(b, dtype=complex).ravel()
    if a.size != b.size or a.size == 0:
        return False
    d = np.abs(a[:, None] - b[None, :])
    return bool(d.min(axis=1).max() <= tol and d.min(axis=0).max() <= tol)


# ----------------------------------------------------------------------
# construction of the objects under test
# ----------------------------------------------------------------------
def family(kind):
    base = kind[9:-1] if kind.startswith("CellWrap(") else kind
    return {"Hexagon": "Hexagon", "Cell": "Hexagon", "Rectangle1x1": "Rectangle", "Rectangle4x1": "Rectangle",
            "CellSquare": "Rectangle", "Circle": "Circle", "Cell3Sec": "Cell3Sec"}[base]


def aspect(kind):
    return "aspect!=1" if "4x1" in kind else "aspect==1"


def rotcond(rot):
    return "unrotated" if float(np.real(rot)) % 360.0 == 0.0 else "rotated"


def build_shape(kind, pos, r, rot):
    from pyphysim.cell import cell, shapes
    if kind == "Hexagon":
        return shapes.Hexagon(pos, r, rot)
    if kind == "Rectangle1x1":
        h = r / math.sqrt(2)
        return shapes.Rectangle(pos - complex(h, h), pos + complex(h, h), rot)
    if kind == "Rectangle4x1":
        h = r / math.sqrt(17)
        w = 4 * h
        # the other diagonal, given in reverse order
        return shapes.Rectangle(pos + complex(w, -h), pos - complex(w, -h), rot)
    if kind == "Circle":
        return shapes.Circle(pos, r)
    if kind == "Cell":
        return cell.Cell(pos, r, cell_id=1, rotation=rot)
    if kind == "Cell3Sec":
        return cell.Cell3Sec(pos, r, cell_id=1, rotation=rot)
    if kind == "CellSquare":
        return cell.CellSquare(pos, r * math.sqrt(2), cell_id=1, rotation=rot)
    if kind.startswith("CellWrap("):
        return build_wrap(kind, pos, r, rot)[0]
    raise KeyError(kind)


def build_wrap(kind, pos, r, rot):
    """(the CellWrap, the cell it wraps)"""
    from pyphysim.cell import cell
    inner = build_shape(kind[9:-1], pos, r, rot)
    return cell.CellWrap(pos + WRAP_OFFSET * r, inner), inner


def shape_centre(kind, pos, r):
    return pos + WRAP_OFFSET * r if kind.startswith("CellWrap(") else pos


SCALES = [1e-6, 1e6]          # tiny and huge radii; the position scales along (pos = r (1+2j))


def pos_radius_pairs():
    return [(p, r) for r in RADII for p in POS]


def shape_configs(tier="thorough"):
    """thorough: the full product kind x pos x radius x rotation.  quick: a covering design -- every kind with
    every rotation twice, the (pos, radius) pair cycling so that all 9 pairs and every (rotation, pos) /
    (rotation, radius) combination class occur for every kind.  Both: the scale family."""
    pairs = pos_radius_pairs()
    for kind in SHAPE_KINDS:
        rots = ROT if kind != "Circle" else [0]
        if tier == "thorough":
            for pos in POS:
                for r in RADII:
                    for rot in rots:
                        yield kind, pos, r, rot
        elif kind == "Circle":
            for pos, r in pairs:
                yield kind, pos, r, 0
        else:
            for i, rot in enumerate(rots):
                for k in (0, 1):
                    pos, r = pairs[(2 * i + k) % len(pairs)]
                    yield kind, pos, r, rot
        for sc in SCALES:
            for rot in ([0] if kind == "Circle" else [17, 90]):
                yield kind, sc * (1 + 2j), sc, rot


def impl_name(obj, meth):
    try:
        return getattr(type(obj), meth).__qualname__
    except Exception:  # noqa
        return type(obj).__name__ + "." + meth


# ----------------------------------------------------------------------
# Part A: vertices + containment
# ----------------------------------------------------------------------
def lattice(centre, R, n):
    step = 2.0 * R / (n - 1)
    jx = (common.seed_offset(19) - 0.5) * step
    jy = (common.seed_offset(23) - 0.5) * step
    g = -R + step * np.arange(n)
    X, Y = np.meshgrid(g + jx, g + jy)
    pts = (X + 1j * Y).ravel() + centre
    return pts[np.abs(pts - centre) <= 1.02 * R + step]


def check_vertices(chk, kind, pos, r, rot, obj, case):
    centre = shape_centre(kind, pos, r)
    v = np.array(obj.vertices, dtype=complex)
    mv, area = model_vertices(kind, centre, r, rot)
    chk.count("eval_vertex_models")
    fam = family(kind)
    if not same_point_set(v, mv, TOL * r):
        chk.fail(("vertices", fam, "differ_from_model"), case, observed=v, expected=mv,
                 msg="own vertices are not the %s of radius r centred at pos rotated by `rotation`" % fam)
        return v
    got = polygon_area(v)
    if abs(abs(got) - area) > 1e-9 * area:
        chk.fail(("vertices", fam, "not_in_cyclic_order"), case, observed=got, expected=area,
                 msg="shoelace area of the own vertices in the given order")
    if abs(float(obj.radius) - r) > TOL * r:
        chk.fail(("vertices", fam, "radius_attribute"), case, observed=obj.radius, expected=r)
    if hasattr(obj, "height") and abs(obj.height - r * math.sqrt(3) / 2) > TOL * r:
        chk.fail(("vertices", fam, "height_not_apothem"), case, observed=obj.height, expected=r * math.sqrt(3) / 2)
    return v


def contains_sig(obj, kind, rot, lib):
    impl = impl_name(obj, "is_point_inside_shape")
    direction = "lib_inside_polygon_outside" if lib else "lib_outside_polygon_inside"
    if impl.startswith("Shape."):
        return ("contains", impl, family(kind), rotcond(rot), direction)
    return ("contains", impl, rotcond(rot), direction)


def run_contains(chk, kind, pos, r, rot, nlat, point=None):
    case = {"part": "contains", "kind": kind, "pos": pos, "radius": r, "rotation": rot}
    with guard(chk, ("contains", family(kind)), case):
        obj = build_shape(kind, pos, r, rot)
        centre = shape_centre(kind, pos, r)
        v = check_vertices(chk, kind, pos, r, rot, obj, case)
        if abs(complex(obj.pos) - centre) > TOL * r:
            chk.fail(("vertices", family(kind), "pos_attribute"), case, observed=obj.pos, expected=centre)
        if point is not None:
            pts = np.array([point], dtype=complex)
        else:
            R = 1.05 * float(np.max(np.abs(v - centre))) if family(kind) != "Circle" else 1.05 * r
            pts = lattice(centre, R, nlat)
            # boundary-seeking probes: either side of every edge at three places
            probes = []
            if family(kind) != "Circle":
                n = len(v)
                for i in range(n):
                    a, b = v[i], v[(i + 1) % n]
                    nrm = 1j * (b - a) / abs(b - a)
                    for t in (0.5, 0.03, 0.97):
                        for s in (1.0, -1.0):
                            probes.append(a + t * (b - a) + s * PROBE * r * nrm)
            else:
                for k in range(24):
                    for s in (1.0, -1.0):
                        probes.append(centre + r * (1 + s * PROBE) * np.exp(1j * math.radians(15.0 * k + 3.0)))
            pts = np.concatenate([pts, np.array(probes, dtype=complex)])
        if family(kind) == "Circle":
            d = np.abs(pts - centre)
            want = d < r
            tie = np.abs(d - r) <= TOL * r
        else:
            want = crossing_inside(v, pts)
            bd, _ = boundary_distance(v, pts)
            tie = bd <= TOL * r
        nin = nout = 0
        for p, w, t in zip(pts.tolist(), want.tolist(), tie.tolist()):
            if t:
                chk.count("excluded_tie_on_edge")
                continue
            got = bool(obj.is_point_inside_shape(p))
            chk.count("eval_containment_queries")
            if w:
                nin += 1
            else:
                nout += 1
            if got != w:
                chk.fail(contains_sig(obj, kind, rot, got), dict(case, point=p), observed=got, expected=w,
                         msg="is_point_inside_shape vs crossing number on the shape's own vertices")
        if nin and nout:
            chk.nontriv(("contains", kind, pos, r, rot))
        chk.outcome("containment", (kind, rotcond(rot), nin > 0, nout > 0))


# ----------------------------------------------------------------------
# Part B: border points
# ----------------------------------------------------------------------
def border_angles():
    a = [round(-180.0 + 3.7 * k, 6) for k in range(0, 98)]
    a += [float(x) for x in range(-180, 181, 15)]
    return a


RATIOS = [None, 1.0, 0.999, 0.5, 0.0]


def border_sig(kind, what):
    fam = family(kind)
    if fam == "Rectangle":
        return ("border_point", fam, aspect(kind), what)
    return ("border_point", fam, what)


def run_border(chk, kind, pos, r, rot, angles=None, ratios=None):
    case = {"part": "border", "kind": kind, "pos": pos, "radius": r, "rotation": rot}
    with guard(chk, ("border_point", family(kind)), case):
        obj = build_shape(kind, pos, r, rot)
        centre = shape_centre(kind, pos, r)
        vl = [complex(z) for z in np.array(obj.vertices, dtype=complex)]
        fam = family(kind)
        edges = set()
        for ang in (angles if angles is not None else border_angles()):
            u = np.exp(1j * math.radians(ang))
            bp1 = None
            for ratio in (ratios if ratios is not None else RATIOS):
                c2 = dict(case, angle=ang, ratio=ratio)
                bp = obj.get_border_point(ang) if ratio is None else obj.get_border_point(ang, ratio)
                bp = complex(bp)
                chk.count("eval_border_points")
                if ratio is None or ratio == 1.0:
                    bp1 = bp if bp1 is None else bp1
                    if not (math.isfinite(bp.real) and math.isfinite(bp.imag)):
                        chk.fail(border_sig(kind, "not_finite"), c2, observed=bp, expected="finite point")
                        continue
                    if fam == "Circle":
                        d, e = abs(abs(bp - centre) - r), 0
                    else:
                        d, e = bdist1(vl, bp, True)
                    edges.add(e)
                    if d > TOL * r:
                        chk.fail(border_sig(kind, "not_on_boundary"), c2, observed=bp,
                                 expected="a point of the polygon spanned by the own vertices",
                                 msg="distance to the boundary = %.3g r" % (d / r))
                    rho = abs(bp - centre)
                    if abs(bp - (centre + rho * u)) > TOL * r:
                        chk.fail(border_sig(kind, "wrong_direction"), c2, observed=bp, expected=centre + rho * u,
                                 msg="direction of (border point - pos) differs from the angle")
                else:
                    ref = obj.get_border_point(ang, 1.0) if bp1 is None else bp1
                    want = centre + ratio * (complex(ref) - centre)
                    if not abs(bp - want) <= TOL * r:
                        chk.fail(border_sig(kind, "not_linear_in_ratio"), c2, observed=bp, expected=want)
        chk.nontriv(("border", kind, pos, r, rot))
        chk.outcome("border_edges_hit", (kind, rotcond(rot), len(edges)))


def run_border_user(chk, kind, pos, r, rot):
    """add_border_user places Nodes at get_border_point(angle, ratio) (ratio 1.0 -> 1-1e-15)"""
    from pyphysim.cell import cell as cellmod
    case = {"part": "border_user", "kind": kind, "pos": pos, "radius": r, "rotation": rot}
    with guard(chk, ("add_border_user", family(kind)), case):
        obj = build_shape(kind, pos, r, rot)
        angles = [0.0, 33.3, 90.0, 181.0, -77.7]
        ratios = [1.0, 0.999, 0.5, 0.25, 0.0]
        obj.add_border_user(angles, ratios)
        obj.add_border_user(45.0, 0.9)
        obj.add_border_user(-135.0)
        users = list(obj.users)
        chk.count("eval_border_users", len(users))
        want = [(a, q) for a, q in zip(angles, ratios)] + [(45.0, 0.9), (-135.0, 1.0)]
        if len(users) != len(want):
            chk.fail(("add_border_user", "count"), case, observed=len(users), expected=len(want))
            return
        for usr, (a, q) in zip(users, want):
            ref = complex(obj.pos) + q * (complex(obj.get_border_point(a, 1.0)) - complex(obj.pos))
            if abs(complex(usr.pos) - ref) > TOL * r or not isinstance(usr, cellmod.Node):
                chk.fail(("add_border_user", family(kind), "position"), dict(case, angle=a, ratio=q),
                         observed=usr.pos, expected=ref)
            if usr.relative_pos is None or \
                    abs(complex(usr.relative_pos) - (complex(usr.pos) - complex(obj.pos))) > TOL * r:
                chk.fail(("add_border_user", "relative_pos"), dict(case, angle=a, ratio=q),
                         observed=usr.relative_pos, expected=complex(usr.pos) - complex(obj.pos))


# ----------------------------------------------------------------------
# Part C: random users (E2)
# ----------------------------------------------------------------------
def default_draws():
    """cycle of draws (x0,y0,x1,y1,...) addressing NDIR directions at DEFAULT_RATIO * radius"""
    out = []
    for k in range(NDIR):
        a = math.radians(360.0 * k / NDIR + 7.0)
        out.append(0.5 + 0.5 * DEFAULT_RATIO * math.cos(a))
        out.append(0.5 + 0.5 * DEFAULT_RATIO * math.sin(a))
    return out


DEFAULTS = default_draws()
RANDOM_KINDS = [("Cell", 0), ("CellSquare", 0), ("Cell3Sec", 0), ("Cell3Sec", 1), ("Cell3Sec", 2), ("Cell3Sec", 3)]
HORIZON = 2 * NDIR * 2 + 32     # scripted choice points per execution
HARD_LIMIT = 4000                # draws after which a placement counts as not terminating


def random_jobs(tier):
    """[(cfg, num_users, deviation bound, split_depth)] -- the stated E2 bounds, see the evidence"""
    diag = [(POS[0], RADII[0]), (POS[1], RADII[1]), (POS[2], RADII[2])]
    full = [(p, r) for p in POS for r in RADII]
    out = []
    if tier == "thorough":
        plan = [(RANDOM_KINDS, full, ROT, MIN_DIST, 2, 2),
                (RANDOM_KINDS, full, ROT, MIN_DIST, 1, 3),
                (RANDOM_KINDS, diag, [45, 17], MIN_DIST, 1, 4),
                (RANDOM_KINDS[:4], diag[1:2], [45], [0.3], 1, 5)]
    else:
        # covering: every kind x rotation x min_dist with the (pos, radius) pair cycling; deeper on a few
        for kind, sector in RANDOM_KINDS:
            for i, rot in enumerate(ROT):
                for m, md in enumerate(MIN_DIST):
                    pos, r = diag[(i + m) % 3]
                    out.append(((kind, sector, pos, r, rot, md), 1, 2, 0))
        plan = [(RANDOM_KINDS, diag[1:], [0, 45, 17], [0.3], 2, 2),
                (RANDOM_KINDS, diag, [45], [0.7], 1, 3),
                (RANDOM_KINDS, diag[2:3], [17], [0.3], 1, 3),
                (RANDOM_KINDS[:2], diag[1:2], [45], [0.3], 1, 4)]
    for sc in SCALES:
        for kind, sector in RANDOM_KINDS:
            out.append(((kind, sector, sc * (1 + 2j), sc, 17, 0.3), 1, 2, 0))
    for kinds, pairs, rots, mds, nusers, bound in plan:
        for kind, sector in kinds:
            for pos, r in pairs:
                for rot in rots:
                    for md in mds:
                        out.append(((kind, sector, pos, r, rot, md), nusers, bound, 2 if bound >= 4 else 0))
    return out


def placement_region(kind, sector, pos, r, rot):
    """(own polygon of a freshly built cell, model sector hexagon or None, centre, radius for min_dist and box)"""
    obj = build_shape(kind, pos, r, rot)
    own = [complex(z) for z in np.array(obj.vertices, dtype=complex)]
    if sector:
        c, s, hexv = sector_hexagon(pos, r, rot, sector)
        return own, [complex(z) for z in hexv], complex(c), float(s)
    return own, None, complex(pos), float(r)


def acceptable(pt, own, extra, centre, rad, md):
    ok = inside1(own, pt) and bdist1(own, pt) > TOL * rad
    if extra is not None:
        ok = ok and inside1(extra, pt)
    return ok and abs(pt - centre) >= md * rad * (1 + 1e-9)


def default_cycle(region, md):
    """the NDIR default directions, those the ORACLE accepts for this cell first (index order otherwise)"""
    own, extra, centre, rad = region
    good, bad = [], []
    for k in range(NDIR):
        q = centre + complex(2 * (DEFAULTS[2 * k] - 0.5) * rad, 2 * (DEFAULTS[2 * k + 1] - 0.5) * rad)
        (good if acceptable(q, own, extra, centre, rad, md) else bad).append(k)
    return good + bad, len(good)


class MinimalFails:
    """buffers the violations of one E2 exploration and hands the one with the fewest deviations (then the
    shortest / smallest choice vector) to the Check first, so the stored replay is the minimal witness"""

    def __init__(self):
        self.best = {}

    def fail(self, sig, case, observed=None, expected=None, msg=""):
        ch = case.get("choices", [])
        key = (sum(1 for c in ch if c), len(ch), list(ch))
        cur = self.best.get(sig)
        if cur is None:
            self.best[sig] = [key, 1, (dict(case), observed, expected, msg)]
        else:
            cur[1] += 1
            if key < cur[0]:
                cur[0], cur[2] = key, (dict(case), observed, expected, msg)

    def flush(self, chk):
        for sig in sorted(self.best):
            _, n, (case, observed, expected, msg) = self.best[sig]
            chk.fail(sig, case, observed=observed, expected=expected, msg=msg)
            for v in chk.violations.values():
                if tuple(v["sig"]) == tuple(str(x) for x in sig):
                    v["count"] += n - 1
        self.best = {}


def make_random_run(chk, cfg, nusers, region, record=None, fails=None):
    kind, sector, pos, r, rot, md = cfg
    fail = fails.fail if fails is not None else chk.fail
    case0 = {"part": "random", "kind": kind, "sector": sector, "pos": pos, "radius": r, "rotation": rot,
             "min_dist_ratio": md, "num_users": nusers}
    own, extra, centre, rad = region
    rc = rotcond(rot)
    cycle, _ = default_cycle(region, md)

    def run(ctx):
        """returns True when the execution ran into the horizon (livelock)"""
        case = dict(case0, choices=ctx.choices)      # live list: an exception report carries the prefix run so far
        result = [False]
        with guard(chk, ("random_user", kind), case):
            result[0] = run_guarded(ctx, case)
        return result[0]

    def run_guarded(ctx, case):
        obj = build_shape(kind, pos, r, rot)
        draws = []

        st = [0, False]       # [index into `cycle` of the current default direction, x of this attempt deviated]

        tail = [None]

        def answer(k):
            if k > HORIZON:
                # beyond the scripted horizon the answers come from a private seeded generator: a correct
                # rejection sampler then terminates however it maps draws to candidates; a loop that still runs
                # after HARD_LIMIT draws does not terminate for this answer stream
                if k > HARD_LIMIT:
                    raise Horizon("no user accepted after %d draws" % HARD_LIMIT)
                if tail[0] is None:
                    tail[0] = np.random.RandomState(20261004)
                val = float(tail[0].random_sample())
                draws.append(val)
                return val
            isx = (k % 2 == 1)
            c = ctx.choose(len(ALPHA) + 1, "x" if isx else "y")
            val = DEFAULTS[2 * cycle[st[0]] + (0 if isx else 1)] if c == 0 else ALPHA[c - 1]
            if isx:
                st[1] = c != 0
            elif c == 0 and not st[1]:
                st[0] = (st[0] + 1) % NDIR      # a fully default attempt was consumed: next direction
            draws.append(val)
            return val

        su = ScriptedUniform(answer)
        livelock = False
        try:
            with su.installed(restore_state=False):
                if sector:
                    obj.add_random_users_in_sector(nusers, sector, None, md)
                else:
                    obj.add_random_users(nusers, None, md)
        except Horizon:
            livelock = True
        case["choices"] = list(ctx.choices)
        chk.count("eval_placement_executions")
        if livelock:
            fail(("random_user", kind, "rejection_loop_never_accepts"), case,
                 observed="no user accepted within %d draws" % HARD_LIMIT,
                 expected="termination: acceptable candidates are offered by the default stream and, after %d "
                          "scripted draws, by a seeded uniform generator" % HORIZON)
            return True
        users = list(obj.users)
        if len(users) != nusers:
            fail(("random_user", kind, "number_of_users"), case, observed=len(users), expected=nusers)
            return False
        nattempts = len(draws) // 2
        accepted = []
        for usr in users:
            p = complex(usr.pos)
            bd = bdist1(own, p)
            if bd <= TOL * rad:
                chk.count("excluded_tie_on_edge")
            elif not inside1(own, p):
                fail(("random_user", "outside_own_polygon", kind, rc), case, observed=p,
                     expected="inside the polygon of the cell's own vertices",
                     msg="distance to the cell boundary %.3g r" % (bd / rad))
            if extra is not None and bdist1(extra, p) > TOL * rad and not inside1(extra, p):
                fail(("random_user", "outside_requested_sector", kind), case, observed=p,
                     expected="inside sector %d" % sector)
            if abs(p - centre) < md * rad * (1 - 1e-12):
                fail(("random_user", "closer_than_min_dist", kind), case, observed=abs(p - centre) / rad,
                     expected=">= %r" % md)
            rp = usr.relative_pos
            if not sector and (rp is None or abs(complex(rp) - (p - centre)) > TOL * rad):
                fail(("random_user", "relative_pos", kind), case, observed=rp, expected=p - centre)
            # which pair of consecutive draws produced it
            for j in range(nattempts):
                q = centre + complex(2 * (draws[2 * j] - 0.5) * rad, 2 * (draws[2 * j + 1] - 0.5) * rad)
                if abs(q - p) <= TOL * rad:
                    accepted.append(j)
                    break
            else:
                # how the library maps draws to candidates is not part of the property: recorded only
                chk.count("placements_not_matching_a_consecutive_draw_pair")
        chk.count("placed_users", len(users))
        if nattempts > nusers or ctx.deviations:
            chk.count("nontrivial_placements")
            chk.nontriv(("random", kind, sector, pos, r, rot, md, nusers, nattempts, tuple(accepted),
                         ctx.deviations))
        chk.outcome("placement_attempts", nattempts)
        if record is not None:
            record.append((nattempts, tuple(complex(u.pos) for u in users)))
        return False
    return run


def explore_sharded(run_mine, run_other, bound, split_depth, shard_i, shard_n):
    """vmc.choice.Explorer.explore with subtree sharding: the nodes above `split_depth` are executed by every
    shard (to discover the choice points) but reported only by shard 0 (`run_other` feeds a discarded Check
    elsewhere); the subtrees rooted at depth `split_depth` are dealt round-robin.  split_depth 0 = plain
    Explorer.  Returns (executions reported by this shard, max choice points)."""
    counter = [0]
    stats = [0, 0]

    def rec(prefix, expect, used, depth, mine):
        ctx = Ctx(list(prefix), list(expect), HORIZON)
        livelocked = (run_mine if mine else run_other)(ctx)
        if len(ctx.choices) < len(prefix):
            raise Broken("execution consumed %d of %d replayed choices" % (len(ctx.choices), len(prefix)))
        if mine:
            stats[0] += 1
        stats[1] = max(stats[1], len(ctx.points))
        if livelocked:
            return          # reported; branching over the points of a livelocked run only repeats the livelock
        pts, ch = ctx.points, ctx.choices
        for i in range(len(prefix), len(pts)):
            arity = pts[i][0]
            for alt in range(1, arity):
                if used + 1 > bound:
                    continue
                if depth + 1 < split_depth:
                    rec(ch[:i] + [alt], pts[:i + 1], used + 1, depth + 1, shard_i == 0)
                elif depth + 1 == split_depth:
                    idx = counter[0]
                    counter[0] += 1
                    if idx % shard_n == shard_i:
                        rec(ch[:i] + [alt], pts[:i + 1], used + 1, depth + 1, True)
                else:
                    rec(ch[:i] + [alt], pts[:i + 1], used + 1, depth + 1, True)

    rec([], [], 0, 0, split_depth == 0 or shard_i == 0)
    return stats


def run_random(chk, cfg, bound, nusers, split_depth=0, shard_i=0, shard_n=1):
    kind, sector, pos, r, rot, md = cfg
    case0 = {"part": "random", "kind": kind, "sector": sector, "pos": pos, "radius": r, "rotation": rot,
             "min_dist_ratio": md, "num_users": nusers}
    owner = split_depth == 0 or shard_i == 0
    # non-vacuity of the default stream, by the oracle: one of the NDIR default points is acceptable
    region = None
    with guard(chk, ("random_user", kind), case0):
        region = placement_region(kind, sector, pos, r, rot)
        _, ok = default_cycle(region, md)
        if not ok:
            raise Broken("no acceptable default draw for %r" % (case0,))
        if owner:
            chk.outcome("acceptable_default_directions", ok)
    if region is None:
        return
    other = chk.child_check()
    if owner:
        rec = []
        check_determinism(make_random_run(other, cfg, nusers, region, rec), (), HORIZON)
        if len(rec) == 2 and rec[0] != rec[1]:
            raise Broken("two executions of the default answer stream differ for %r" % (case0,))
    fails = MinimalFails()
    nexec, maxpts = explore_sharded(make_random_run(chk, cfg, nusers, region, fails=fails),
                                    make_random_run(other, cfg, nusers, region),
                                    bound, split_depth, shard_i, shard_n)
    fails.flush(chk)
    if owner:
        chk.count("eval_placement_configs")
        chk.outcome("e2_bounds_completed", (nusers, bound))
    chk.outcome("e2_choice_points_per_execution", maxpts)


# ----------------------------------------------------------------------
# Part D: clusters
# ----------------------------------------------------------------------
def cluster_configs(tier):
    hexs = [(n, t) for t in ("simple", "3sec") for n in (1, 3, 4, 7, 13, 19)]
    sqs = [(n, "square") for n in (1, 4, 9, 16)]
    combos = [(r, pos) for r in (1.0, 2.5) for pos in POS]
    for k, (n, t) in enumerate(hexs + sqs):
        if tier == "thorough":
            for r, pos in combos:
                for rot in ROT:
                    yield n, t, r, pos, rot
        else:
            # covering: every (size, type) with every rotation, (radius, pos) cycling through all 6 combinations
            for i, rot in enumerate(ROT):
                r, pos = combos[(i + k) % len(combos)]
                yield n, t, r, pos, rot
        for sc in SCALES:
            yield n, t, sc, sc * (1 + 1j), 17


def interior_probes(v, c):
    """points surely inside a polygon that is star-shaped w.r.t. c"""
    v = np.asarray(v, dtype=complex)
    mid = 0.5 * (v + np.roll(v, -1))
    out = [c]
    for f in (0.999, 0.6):
        out.extend(c + f * (v - c))
        out.extend(c + f * (mid - c))
    return np.array(out, dtype=complex)


def check_cluster_geometry(chk, cl, n, ctype, r, pos, rot, case, sig0):
    """everything that can be said about ONE constructed cluster without building anything else;
    returns (cells, centre positions) or None"""
    cells = list(cl)
    chk.count("eval_clusters")
    if len(cells) != n or cl.num_cells != n:
        chk.fail(sig0 + ("number_of_cells",), case, observed=len(cells), expected=n)
        return None
    P = np.array([complex(c.pos) for c in cells])
    V = [np.array(c.vertices, dtype=complex) for c in cells]
    cname = {"simple": "Cell", "3sec": "Cell3Sec", "square": "CellSquare"}[ctype]
    step = r * math.sqrt(3) if ctype != "square" else r
    circ = r if ctype != "square" else r / math.sqrt(2)       # circum-radius of one cell
    kindname = {"simple": "Cell", "3sec": "Cell3Sec", "square": "CellSquare"}[ctype]
    for i, c in enumerate(cells):
        if type(c).__name__ != cname or c.id != i + 1:
            chk.fail(sig0 + ("cell_class_or_id",), case, observed=(type(c).__name__, c.id), expected=(cname, i + 1))
        if abs(complex(c.rotation) - rot) > 1e-12:
            chk.fail(sig0 + ("cell_rotation",), case, observed=c.rotation, expected=rot)
        # congruent: same polygon relative to the own centre, and it is the model polygon
        if V[i].shape != V[0].shape or np.max(np.abs((V[i] - P[i]) - (V[0] - P[0]))) > TOL * r:
            chk.fail(sig0 + ("cells_not_congruent",), dict(case, cell=i + 1), observed=V[i] - P[i],
                     expected=V[0] - P[0])
    mv, _ = model_vertices(kindname, P[0], circ, rot)
    if not same_point_set(V[0], mv, TOL * r):
        chk.fail(sig0 + ("cell_polygon_differs_from_model",), case, observed=V[0], expected=mv)
    cen = complex(np.mean(P))
    if abs(cen - pos) > TOL * r:
        chk.fail(sig0 + ("centroid_not_cluster_pos",), case, observed=cen, expected=pos)
    if abs(complex(cl.pos) - pos) > 0:
        chk.fail(sig0 + ("pos_attribute",), case, observed=cl.pos, expected=pos)
    # brute-force pairwise centre distances
    D = np.zeros((n, n))
    for i in range(n):
        for j in range(n):
            D[i, j] = abs(P[i] - P[j])
    nn_pairs = []
    if n > 1:
        chk.nontriv(("cluster", n, ctype, r, pos, rot))
        off = D + np.diag([np.inf] * n)
        dmin = float(off.min())
        if abs(dmin - step) > TOL * r:
            chk.fail(sig0 + ("min_centre_distance",), case, observed=dmin, expected=step,
                     msg="two apothems (hexagons) / one side (squares)")
        if ctype == "simple" and abs(2 * cells[0].height - dmin) > TOL * r:
            chk.fail(sig0 + ("min_centre_distance_vs_cell_height",), case, observed=dmin,
                     expected=2 * cells[0].height)
        for i in range(n):
            if abs(float(off[i].min()) - step) > TOL * r:
                chk.fail(sig0 + ("cell_without_touching_neighbour",), dict(case, cell=i + 1),
                         observed=float(off[i].min()), expected=step)
            for j in range(i + 1, n):
                if abs(D[i, j] - step) <= TOL * r:
                    nn_pairs.append((i, j))
        # neighbours share an edge (>= 2 vertices); nobody's interior meets another cell
        for i, j in nn_pairs:
            shared = sum(1 for a in V[i] if np.min(np.abs(V[j] - a)) <= TOL * r)
            need = 3 if ctype == "3sec" else 2
            if shared != need:
                chk.fail(sig0 + ("neighbours_do_not_share_an_edge",), dict(case, cells=[i + 1, j + 1]),
                         observed=shared, expected=need, msg="number of common vertices of two nearest neighbours")
        for i in range(n):
            probes = interior_probes(V[i], P[i])
            for j in range(n):
                if j != i and D[i, j] < 2.5 * step:
                    ins = crossing_inside(V[j], probes)
                    chk.count("eval_overlap_probes", len(probes))
                    if ins.any():
                        chk.fail(sig0 + ("cells_overlap",), dict(case, cells=[i + 1, j + 1]),
                                 observed=probes[np.nonzero(ins)[0][0]],
                                 expected="no interior point of a cell lies inside another cell")
                        break
    # orientation: every centre difference is an integer combination of the lattice basis rotated by `rot`
    if n > 1:
        b1 = complex(step * np.exp(1j * math.radians(30.0))) if ctype != "square" else complex(step, 0.0)
        b2 = complex(0.0, step)
        rel = rot_c(P - P[0], -float(np.real(rot)))
        det = b1.real * b2.imag - b1.imag * b2.real          # rel = ii*b1 + jj*b2, Cramer's rule
        ii = (rel.real * b2.imag - rel.imag * b2.real) / det
        jj = (b1.real * rel.imag - b1.imag * rel.real) / det
        off_lat = float(max(np.max(np.abs(ii - np.round(ii))), np.max(np.abs(jj - np.round(jj)))))
        if off_lat > 1e-8:
            chk.fail(sig0 + ("centres_not_on_the_rotated_lattice",), case, observed=off_lat,
                     expected="integer lattice coordinates in the basis rotated by `rotation`")
    chk.outcome("cluster_layouts", (n, ctype, rotcond(rot), len(nn_pairs)))
    return cells, P


def run_cluster(chk, n, ctype, r, pos, rot):
    from pyphysim.cell import cell
    case = {"part": "cluster", "num_cells": n, "cell_type": ctype, "cell_radius": r, "pos": pos, "rotation": rot}
    sig0 = ("cluster", ctype)
    with guard(chk, sig0, case):
        cl = cell.Cluster(cell_radius=r, num_cells=n, pos=pos, cell_type=ctype, rotation=rot)
        got = check_cluster_geometry(chk, cl, n, ctype, r, pos, rot, case, sig0)
        if got is None:
            return
        cells, P = got
        step = r * math.sqrt(3) if ctype != "square" else r
        # rotation covariance against the unrotated cluster of the same parameters
        if rot != 0:
            c0 = cell.Cluster(cell_radius=r, num_cells=n, pos=pos, cell_type=ctype, rotation=0)
            P0 = np.array([complex(c.pos) for c in c0])
            want = pos + rot_c(P0 - pos, rot)
            if np.max(np.abs(P - want)) > TOL * r * 10:
                chk.fail(sig0 + ("positions_not_rotated_rigidly",), case, observed=P, expected=want)
        # wrap-around: 19 cells + 42 wrapped cells = rings 0..4 of the hexagonal lattice
        if n == 19 and ctype in ("simple", "3sec"):
            cl.create_wrap_around_cells()
            # the wrapped cells have no public accessor: oracle input read tolerantly
            W = _private(cl, "_wrapped_cells", "wrapped_cells")
            if W is MISSING:
                unavailable(chk, "Cluster: collection of wrapped cells")
                W = None
            else:
                W = list(W.values()) if isinstance(W, dict) else list(W)
        else:
            W = None
        if W is not None:
            allp = np.concatenate([P, np.array([complex(w.pos) for w in W])])
            a1 = step * np.exp(1j * math.radians(30.0))
            a2 = step * 1j
            lat = [pos + rot_c(i * a1 + j * a2, rot) for i in range(-4, 5) for j in range(-4, 5)
                   if max(abs(i), abs(j), abs(i + j)) <= 4]
            chk.count("eval_wrapped_cells", len(W))
            if len(allp) != 61 or not same_point_set(allp, lat, TOL * r * 10):
                chk.fail(sig0 + ("wrap_around_not_lattice_rings",), case, observed=allp, expected=np.array(lat))
            for w in W:
                src = _private(w, "_wrapped_cell", "wrapped_cell")
                if src is MISSING:
                    unavailable(chk, "CellWrap: the wrapped cell")
                    continue
                chk.count("eval_wrap_translations")
                t = complex(w.pos) - complex(src.pos)
                if abs(abs(t) - math.sqrt(19) * step) > TOL * r * 10:
                    chk.fail(sig0 + ("wrap_translation_not_a_cluster_period",), case, observed=abs(t),
                             expected=math.sqrt(19) * step)
                wv = np.array(w.vertices, dtype=complex)
                sv = np.array(src.vertices, dtype=complex)
                if wv.shape != sv.shape or np.max(np.abs((wv - w.pos) - (sv - src.pos))) > TOL * r:
                    chk.fail(sig0 + ("wrapped_cell_not_congruent",), case, observed=wv - w.pos, expected=sv - src.pos)
        # distance matrices with border users and scripted random users
        run_distances(chk, cl, cells, P, n, ctype, r, rot, case)


def run_distances(chk, cl, cells, P, n, ctype, r, rot, case):
    sig0 = ("distance_matrix", ctype)
    for stage in ("no_users", "users"):
        if stage == "users":
            su = scripted_defaults(2 * NDIR * (3 * n + 4))
            ids = list(range(1, n + 1))
            with su.installed(restore_state=False):
                cl.add_random_users(ids[0], 2, None, 0.3)
                if n > 1:
                    cl.add_random_users(ids[1:], [1 + (i % 2) for i in ids[1:]], None, 0.0)
            cl.add_border_users(ids[-1], [10.0, 200.0], [0.9, 0.5])
            cl.add_border_users(ids[:2], -45.0, 0.7)
        expect_counts = [0] * n
        if stage == "users":
            expect_counts[0] += 2
            for i in range(1, n):
                expect_counts[i] += 1 + ((i + 1) % 2)
            expect_counts[n - 1] += 2
            for i in range(min(2, n)):
                expect_counts[i] += 1
        users = []
        for i, c in enumerate(cells):
            us = list(c.users)
            if len(us) != expect_counts[i]:
                chk.fail(sig0 + ("users_per_cell",), dict(case, cell=i + 1), observed=len(us),
                         expected=expect_counts[i])
            users.extend(complex(u.pos) for u in us)
        want = np.zeros((len(users), n))
        for a, u in enumerate(users):
            for b in range(n):
                d = u - P[b]
                want[a, b] = math.sqrt(d.real * d.real + d.imag * d.imag)
        for name in ("calc_dist_all_users_to_each_cell", "calc_dist_all_users_to_each_cell_no_wrap_around"):
            got = np.asarray(getattr(cl, name)())
            chk.count("eval_distance_entries", int(want.size))
            if got.shape != want.shape:
                chk.fail(sig0 + (name, "shape", stage), case, observed=got.shape, expected=want.shape)
            elif want.size and np.max(np.abs(got - want)) > 1e-12 * (1 + float(np.max(want))):
                chk.fail(sig0 + (name, "values"), case, observed=got, expected=want)
        if stage == "users":
            chk.outcome("distance_matrix_shapes", want.shape)


# ----------------------------------------------------------------------
# Part E: point processes
# ----------------------------------------------------------------------
def pp_configs(tier):
    for fn in ("circle", "rectangle"):
        for npts in (1, 2):
            if fn == "circle":
                for rmax in (1.0, 2.5, 10.0):
                    for fmin in (None, 0.0, 0.3, 0.7):
                        yield fn, npts, rmax, fmin
            else:
                for w, h in ((1.0, 1.0), (4.0, 1.0), (0.5, 10.0)):
                    yield fn, npts, w, h


def run_pp(chk, fn, npts, a, b, only=None):
    from pyphysim.pointprocess import pointprocess as pp
    case0 = {"part": "pp", "fn": fn, "num_points": npts, "a": a, "b": b}
    vectors = [tuple(only)] if only is not None else itertools.product(range(len(ALPHA)), repeat=2 * npts)
    for vec in vectors:
        case = dict(case0, draws=list(vec))
        with guard(chk, ("pointprocess", fn), case):
            seq = [ALPHA[i] for i in vec]
            su = ScriptedUniform(lambda k: seq[(k - 1) % len(seq)])
            with su.installed(restore_state=False):
                if fn == "circle":
                    rmin = 0.0 if b is None else b * a
                    pts = pp.generate_random_points_in_circle(npts, a) if b is None else \
                        pp.generate_random_points_in_circle(npts, a, rmin)
                else:
                    pts = pp.generate_random_points_in_rectangle(npts, a, b)
            chk.count("eval_point_process_calls")
            pts = np.asarray(pts)
            chk.outcome("pp_draws_per_call", (fn, npts, su.draws))
            if pts.shape != (npts,):
                chk.fail(("pointprocess", fn, "number_of_points"), case, observed=pts.shape, expected=(npts,))
                continue
            if fn == "circle":
                d = np.abs(pts)
                bad = (d > a * (1 + 1e-12)) | (d < rmin * (1 - 1e-12))
                chk.outcome("pp_radius_class", (bool((d < 0.5 * a).any()), bool((d >= 0.5 * a).any())))
            else:
                bad = (np.abs(pts.real) > 0.5 * a * (1 + 1e-12)) | (np.abs(pts.imag) > 0.5 * b * (1 + 1e-12))
                chk.outcome("pp_quadrants", tuple(sorted(set((bool(p.real > 0), bool(p.imag > 0)) for p in pts))))
            if bad.any():
                chk.fail(("pointprocess", fn, "point_outside"), case, observed=pts, expected="all points inside")
        chk.nontriv(("pp", fn, npts, a, b, vec[:2]))


# ----------------------------------------------------------------------
# Part F: setter histories on ONE object (set -> query -> set -> query), differential against a fresh object
# ----------------------------------------------------------------------
HIST_KINDS = ["Hexagon", "Rectangle1x1", "Rectangle4x1", "Circle", "Cell", "Cell3Sec", "CellSquare",
              "CellWrap(Cell)", "CellWrap(Cell3Sec)", "CellWrap(CellSquare)"]
HIST_START = (1 + 2j, 1.0, 17)
HIST_VALUES = {"pos": [-3.5 + 0.25j, 0j], "radius": [2.5, 0.5], "rotation": [45, -30], "inner_pos": [4 - 4j]}


def history_events(kind):
    fam = family(kind)
    names = ["pos"]
    if fam != "Rectangle":
        names.append("radius")       # a Rectangle is sized by its corners: no way to resize it (assumption)
    if fam != "Circle":
        names.append("rotation")
    if kind.startswith("CellWrap("):
        names.append("inner_pos")    # moving the wrapped cell must not move the wrapper
    return [(nm, v) for nm in names for v in HIST_VALUES[nm]]


def histories(kind, depth):
    evs = history_events(kind)
    for d in range(1, depth + 1):
        for h in itertools.product(evs, repeat=d):
            yield h


def apply_event(kind, obj, ev, inner=None):
    name, val = ev
    if kind.startswith("CellWrap("):
        if name == "pos":
            obj.pos = val
        elif name == "inner_pos":
            inner.pos = val
        else:
            setattr(inner, name, val)
    else:
        setattr(obj, name, val)


def scripted_defaults(limit=10 * NDIR, lead=()):
    """the cyclic default stream, optionally preceded by the draws `lead` (e.g. (0.5, 0.5) = the cell centre,
    which a positive min_dist_ratio must reject)"""
    k = [0]
    tail = [None]

    def answer(_):
        k[0] += 1
        if k[0] > limit:
            # termination is judged independently of how the library maps draws to candidates: after `limit`
            # default draws a private seeded uniform generator answers; HARD_LIMIT more draws = no termination
            if k[0] > limit + HARD_LIMIT:
                raise Horizon("rejection loop does not terminate")
            if tail[0] is None:
                tail[0] = np.random.RandomState(20261004)
            return float(tail[0].random_sample())
        if k[0] <= len(lead):
            return lead[k[0] - 1]
        return DEFAULTS[(k[0] - 1 - len(lead)) % len(DEFAULTS)]
    return ScriptedUniform(answer)


def observe(kind, obj, centre, r, rot):
    """what a user can see of the geometry: vertices, attributes, containment of fixed probes, border points,
    and (cells) where a scripted random user lands in a COPY-free way (placement on a scratch twin is not
    possible, so placement is observed only at the end of a history)"""
    fam = family(kind)
    v = np.array(obj.vertices, dtype=complex)
    mv, _ = model_vertices(kind, centre, r, rot)
    mvl = [complex(z) for z in mv]
    probes = []
    if fam == "Circle":
        for k in range(6):
            u = np.exp(1j * math.radians(60.0 * k + 11.0))
            probes += [centre + 0.9 * r * u, centre + 1.1 * r * u]
    else:
        for i in range(len(mvl)):
            a, b = mvl[i], mvl[(i + 1) % len(mvl)]
            for q in (a, 0.5 * (a + b)):
                probes += [centre + 0.9 * (q - centre), centre + 1.1 * (q - centre)]
    inside = [bool(obj.is_point_inside_shape(q)) for q in probes]
    bps = [complex(obj.get_border_point(a, 0.9)) for a in (10.0, 100.0, -125.0)]
    attrs = {"pos": complex(obj.pos), "radius": float(np.real(obj.radius)), "rotation": complex(obj.rotation)}
    if hasattr(obj, "height"):
        attrs["height"] = float(obj.height)
    if hasattr(obj, "secradius"):
        attrs["secradius"] = float(obj.secradius)
    return v, inside, bps, attrs, mv


def place_users(kind, obj):
    """scripted placement (default stream) -> positions; cells only"""
    base = kind[9:-1] if kind.startswith("CellWrap(") else kind
    if kind.startswith("CellWrap(") or base not in ("Cell", "Cell3Sec", "CellSquare"):
        return []
    n0 = len(obj.users)
    su = scripted_defaults()
    with su.installed(restore_state=False):
        obj.add_random_user(None, 0.3)
        if base == "Cell3Sec":
            for k in (1, 2, 3):
                obj.add_random_user_in_sector(k, None, 0.3)
    return [complex(u.pos) for u in obj.users[n0:]]


def run_history(chk, kind, hist):
    pos0, r0, rot0 = HIST_START
    case = {"part": "history", "kind": kind, "start": {"pos": pos0, "radius": r0, "rotation": rot0},
            "events": [[nm, v] for nm, v in hist]}
    fam = family(kind)
    with guard(chk, ("history", fam), case):
        inner = None
        if kind.startswith("CellWrap("):
            obj, inner = build_wrap(kind, pos0, r0, rot0)
        else:
            obj = build_shape(kind, pos0, r0, rot0)
        centre, r, rot = shape_centre(kind, pos0, r0), r0, rot0
        is_cell = kind in ("Cell", "Cell3Sec", "CellSquare")
        first_users = place_users(kind, obj) if is_cell else []
        offsets = [u - centre for u in first_users]
        observe(kind, obj, centre, r, rot)            # use once: whatever can be cached is cached now
        chk.states += 1
        last = "constructor"
        for ev in hist:
            apply_event(kind, obj, ev, inner)
            chk.transitions += 1
            chk.traces_validated += 1
            name, val = ev
            last = name + "_setter"
            if name == "pos":
                centre = complex(val)
            elif name == "radius":
                r = float(val)
            elif name == "rotation":
                rot = val
            # fresh object configured directly with the current parameters
            if kind.startswith("CellWrap("):
                fresh = build_shape(kind, 0j, r, rot)
                fresh.pos = centre
            else:
                fresh = build_shape(kind, centre, r, rot)
            chk.count("eval_history_states")
            sig = ("history", fam, last)
            tol = TOL * max(r, r0)
            # vertices first: a shape that did not follow its setters makes the other queries meaningless
            v_now = np.array(obj.vertices, dtype=complex)
            v_model, _ = model_vertices(kind, centre, r, rot)
            if not same_point_set(v_now, v_model, tol):
                chk.fail(sig + ("vertices_differ_from_model",), case, observed=v_now, expected=v_model,
                         msg="after the events the own vertices are not the shape given by the current pos/radius/rotation")
                return
            got = observe(kind, obj, centre, r, rot)
            want = observe(kind, fresh, centre, r, rot)
            if got[0].shape != want[0].shape or np.max(np.abs(got[0] - want[0])) > tol:
                chk.fail(sig + ("vertices_differ_from_fresh_object",), case, observed=got[0], expected=want[0])
                return
            for key in want[3]:
                if abs(complex(got[3][key]) - complex(want[3][key])) > tol:
                    chk.fail(sig + ("attribute_" + key + "_differs_from_fresh_object",), case, observed=got[3][key],
                             expected=want[3][key])
                    return
            if got[1] != want[1]:
                chk.fail(sig + ("containment_differs_from_fresh_object",), case, observed=got[1], expected=want[1])
                return
            if max(abs(a - b) for a, b in zip(got[2], want[2])) > tol:
                chk.fail(sig + ("border_point_differs_from_fresh_object",), case, observed=got[2], expected=want[2])
                return
            if is_cell and name == "pos":
                now = [complex(u.pos) for u in obj.users[:len(offsets)]]
                if any(abs(p - (centre + o)) > tol for p, o in zip(now, offsets)):
                    chk.fail(sig + ("users_did_not_move_with_the_cell",), case, observed=now,
                             expected=[centre + o for o in offsets])
                    return
        # at the end: scripted placement on the used object == on a fresh object, inside the model polygon
        if is_cell:
            fresh = build_shape(kind, centre, r, rot)
            a, b = place_users(kind, obj), place_users(kind, fresh)
            sig = ("history", fam, last)
            if len(a) != len(b) or any(abs(x - y) > TOL * max(r, r0) for x, y in zip(a, b)):
                chk.fail(sig + ("placement_differs_from_fresh_object",), case, observed=a, expected=b)
        chk.nontriv(("history", kind, tuple((nm, complex(v)) for nm, v in hist)))
        chk.outcome("history_last_event", (fam, last, len(hist)))


# ----------------------------------------------------------------------
# Part G: several clusters built one after the other in ONE fresh process (class-level state)
# ----------------------------------------------------------------------
SEQ_SPECS = [(3, "simple", 0), (3, "simple", 17), (4, "simple", 0), (4, "simple", 17), (13, "simple", 0),
             (13, "simple", 17), (7, "simple", 30), (13, "3sec", 17), (3, "3sec", -30), (19, "3sec", 0),
             (4, "square", 17), (9, "square", 0)]


def cluster_sequences(tier):
    idx = range(len(SEQ_SPECS))
    for a in idx:
        for b in idx:
            yield (a, b)
    if tier == "thorough":
        for t in itertools.product(range(6), repeat=3):
            yield t


def _sequence_body(chk, seq):
    from pyphysim.cell import cell
    built = []
    for k, i in enumerate(seq):
        n, ctype, rot = SEQ_SPECS[i]
        r = (1.0, 2.5)[k % 2]
        pos = POS[(k + 1) % 3]
        built.append((cell.Cluster(cell_radius=r, num_cells=n, pos=pos, cell_type=ctype, rotation=rot),
                      n, ctype, r, pos, rot))
    for k, (cl, n, ctype, r, pos, rot) in enumerate(built):
        case = {"part": "cluster_sequence", "sequence": list(seq), "index": k,
                "specs": [list(SEQ_SPECS[i]) for i in seq]}
        sig0 = ("cluster_after_other_clusters", ctype)
        with guard(chk, sig0, case):
            check_cluster_geometry(chk, cl, n, ctype, r, pos, rot, case, sig0)
    chk.nontriv(("cluster_sequence", tuple(seq)))
    chk.count("eval_cluster_sequences")


def run_cluster_sequence(chk, seq):
    """in a forked child, so that every sequence starts from the class-level state of a process that has not
    built any cluster yet (the caller guarantees that: these jobs run first in every worker)"""
    import os
    import pickle
    from pyphysim.cell import cell  # noqa: F401  (module import only; no cluster is built in this process)
    rfd, wfd = os.pipe()
    pid = os.fork()
    if pid == 0:
        code = 0
        try:
            os.close(rfd)
            child = chk.child_check()
            _sequence_body(child, seq)
            with os.fdopen(wfd, "wb") as f:
                pickle.dump(child.state(), f)
        except BaseException:  # noqa
            code = 3
        os._exit(code)
    os.close(wfd)
    with os.fdopen(rfd, "rb") as f:
        data = f.read()
    _, status = os.waitpid(pid, 0)
    if status != 0 or not data:
        raise Broken("cluster-sequence child failed for %r" % (seq,))
    chk.absorb(pickle.loads(data))


# ----------------------------------------------------------------------
# Part H: aliasing / in-place mutation of arguments and returned arrays
# ----------------------------------------------------------------------
def run_aliasing(chk, kind):
    from pyphysim.cell import cell, shapes
    pos, r, rot = 1 + 2j, 2.5, 17
    case = {"part": "aliasing", "kind": kind}
    with guard(chk, ("aliasing", kind), case):
        chk.count("eval_aliasing_cases")
        if kind == "calc_rotated_pos":
            for arr in (np.array([1 + 2j, -3j, 0.5]), np.arange(10)[::3], np.arange(12.0).reshape(3, 4).T[1]):
                keep = arr.copy()
                out1 = shapes.Shape.calc_rotated_pos(arr, 33.0)
                out2 = shapes.Shape.calc_rotated_pos(arr, 33.0)
                if not np.array_equal(arr, keep) or arr.dtype != keep.dtype:
                    chk.fail(("aliasing", "calc_rotated_pos", "argument_modified"), case, observed=arr, expected=keep)
                if np.shares_memory(out1, arr) or not np.array_equal(out1, out2) or \
                        np.max(np.abs(out1 - keep * np.exp(1j * math.radians(33.0)))) > 1e-12 * 12:
                    chk.fail(("aliasing", "calc_rotated_pos", "result"), case, observed=out1,
                             expected=keep * np.exp(1j * math.radians(33.0)))
            return
        if kind == "Cluster":
            cl = cell.Cluster(cell_radius=r, num_cells=7, pos=pos, rotation=rot)
            ids = np.array([1, 9, 2, 9, 3])[::2]
            angles = np.array([10.0, 0, 100.0, 0, 200.0])[::2]
            ratios = np.array([0.5, 0.9, 0.25])
            keep = (ids.copy(), angles.copy(), ratios.copy())
            cl.add_border_users(ids, angles, ratios)
            first = [complex(u.pos) for u in cl.get_all_users()]
            if not all(np.array_equal(x, y) for x, y in zip((ids, angles, ratios), keep)):
                chk.fail(("aliasing", "Cluster.add_border_users", "argument_modified"), case,
                         observed=(ids, angles, ratios), expected=keep)
            angles += 45.0
            ratios[:] = 0.1
            again = [complex(u.pos) for u in cl.get_all_users()]
            if first != again:
                chk.fail(("aliasing", "Cluster.add_border_users", "users_follow_the_callers_array"), case,
                         observed=again, expected=first)
            want = [complex(cl.get_cell_by_id(int(i)).get_border_point(a, q)) for i, a, q in zip(keep[0], keep[1], keep[2])]
            if max(abs(x - y) for x, y in zip(first, want)) > TOL * r:
                chk.fail(("aliasing", "Cluster.add_border_users", "positions"), case, observed=first, expected=want)
            d1 = cl.calc_dist_all_users_to_each_cell()
            ref = np.array(d1, dtype=float)
            wrote = scribble(d1, 1000.0)
            chk.outcome("returned_array_writable", ("distance_matrix", wrote))
            d2 = np.asarray(cl.calc_dist_all_users_to_each_cell())
            if not np.array_equal(d2, ref):
                chk.fail(("aliasing", "calc_dist_all_users_to_each_cell", "returned_array_is_shared"), case,
                         observed=d2, expected=ref)
            v1 = np.array(cl.vertices)
            vv = cl.vertices
            chk.outcome("returned_array_writable", ("Cluster.vertices", scribble(vv, 7.0)))
            if not np.array_equal(np.array(cl.vertices), v1):
                chk.fail(("aliasing", "Cluster.vertices", "returned_array_is_shared"), case,
                         observed=cl.vertices, expected=v1)
            p1 = [complex(c.pos) for c in cl]
            cl2 = cell.Cluster(cell_radius=r, num_cells=7, pos=pos, rotation=rot)
            if [complex(c.pos) for c in cl2] != p1 or [complex(c.pos) for c in cl] != p1:
                chk.fail(("aliasing", "Cluster", "second_cluster_differs_or_moves_the_first"), case,
                         observed=[complex(c.pos) for c in cl2], expected=p1)
            return
        obj = build_shape(kind, pos, r, rot)
        v1 = np.array(obj.vertices, dtype=complex)
        for attempt in ("vertices", "vertices_no_trans_no_rotation"):
            if not hasattr(obj, attempt):
                continue
            arr = getattr(obj, attempt)
            # the caller scribbles over what it was handed (if it can)
            chk.outcome("returned_array_writable", (attempt, scribble(arr, 100.0 + 50j)))
            v2 = np.array(obj.vertices, dtype=complex)
            if v2.shape != v1.shape or not np.array_equal(v2, v1):
                chk.fail(("aliasing", family(kind), attempt, "returned_array_is_shared"), case, observed=v2, expected=v1)
                return
        if kind in ("Cell", "Cell3Sec", "CellSquare"):
            angles = np.array([0.0, 7.0, 120.0, 7.0, -100.0])[::2]
            ratios = np.array([0.5, 0.75, 0.25])
            keep = (angles.copy(), ratios.copy())
            obj.add_border_user(angles, ratios)
            obj.add_border_user(angles, ratios)
            users = [complex(u.pos) for u in obj.users]
            if not (np.array_equal(angles, keep[0]) and np.array_equal(ratios, keep[1])):
                chk.fail(("aliasing", "add_border_user", "argument_modified"), case, observed=(angles, ratios), expected=keep)
            angles -= 30.0
            ratios *= 0.5
            want = [complex(obj.get_border_point(a, q)) for a, q in zip(keep[0], keep[1])] * 2
            now = [complex(u.pos) for u in obj.users]
            if now != users or len(now) != 6 or max(abs(x - y) for x, y in zip(now, want)) > TOL * r:
                chk.fail(("aliasing", "add_border_user", "positions"), case, observed=now, expected=want)


def run_pp_aliasing(chk):
    from pyphysim.pointprocess import pointprocess as pp
    case = {"part": "aliasing", "kind": "pointprocess"}
    with guard(chk, ("aliasing", "pointprocess"), case):
        chk.count("eval_aliasing_cases")
        outs = []
        for _ in range(2):
            su = scripted_defaults(100)
            with su.installed(restore_state=False):
                outs.append((pp.generate_random_points_in_circle(3, 2.0, 0.5),
                             pp.generate_random_points_in_rectangle(3, 4.0, 1.0)))
        for arr in outs[0]:
            scribble(arr, 5.0)
        su = scripted_defaults(100)
        with su.installed(restore_state=False):
            third = (pp.generate_random_points_in_circle(3, 2.0, 0.5), pp.generate_random_points_in_rectangle(3, 4.0, 1.0))
        if not (np.array_equal(third[0], outs[1][0]) and np.array_equal(third[1], outs[1][1])):
            chk.fail(("aliasing", "pointprocess", "results_shared_between_calls"), case, observed=third, expected=outs[1])


# ----------------------------------------------------------------------
# Part I: dtype / layout of the inputs (integer and numpy scalar types for positions, sizes, angles, points)
# ----------------------------------------------------------------------
DTYPE_FORMS = {"pyint": lambda x: int(x), "np_int64": lambda x: np.int64(x), "np_float64": lambda x: np.float64(x),
               "np_int32": lambda x: np.int32(x)}


def run_dtypes(chk, kind, form):
    """integer-valued parameters given as int / numpy scalars must give the object the float parameters give"""
    from pyphysim.cell import cell, shapes
    conv = DTYPE_FORMS[form]
    case = {"part": "dtypes", "kind": kind, "form": form}
    px, r, rot = 3, 2, 30
    with guard(chk, ("dtypes", kind, form), case):
        chk.count("eval_dtype_cases")
        if kind == "Cluster":
            for n, ctype in ((7, "simple"), (3, "3sec"), (4, "square")):
                a = cell.Cluster(conv(r), n, pos=conv(px), cell_type=ctype, rotation=conv(rot))
                b = cell.Cluster(float(r), n, pos=complex(px), cell_type=ctype, rotation=float(rot))
                pa, pb = [complex(c.pos) for c in a], [complex(c.pos) for c in b]
                va, vb = np.array([c.vertices for c in a]), np.array([c.vertices for c in b])
                if max(abs(x - y) for x, y in zip(pa, pb)) > TOL * r or np.max(np.abs(va - vb)) > TOL * r:
                    chk.fail(("dtypes", "Cluster", "layout_differs_from_float_parameters"), dict(case, cell_type=ctype),
                             observed=pa, expected=pb)
                ids = np.array([1, 2, 3, 2])[::2] if form != "pyint" else [1, 3]
                nums = np.array([2, 1]) if form != "pyint" else [2, 1]
                su = scripted_defaults(400)
                with su.installed(restore_state=False):
                    try:
                        a.add_random_users(ids, nums, None, np.array([0.0, 0.3]) if form != "pyint" else [0.0, 0.3])
                    except AssertionError as e:
                        chk.fail(("dtypes", "Cluster.add_random_users", "ndarray_num_users_rejected"),
                                 dict(case, cell_type=ctype), observed="AssertionError %s" % e,
                                 expected="documented: num_users : int | list[int] | np.ndarray")
                        continue
                counts = [c.num_users for c in a]
                want = [2, 0, 1] + [0] * (len(counts) - 3)
                if counts != want:
                    chk.fail(("dtypes", "Cluster.add_random_users", "users_per_cell"), dict(case, cell_type=ctype),
                             observed=counts, expected=want)
                a.add_border_users(ids, conv(40), 0.5)
                if [c.num_users for c in a] != [3, 0, 2] + [0] * (len(counts) - 3):
                    chk.fail(("dtypes", "Cluster.add_border_users", "users_per_cell"), dict(case, cell_type=ctype),
                             observed=[c.num_users for c in a], expected=[3, 0, 2])
                d = np.asarray(a.calc_dist_all_users_to_each_cell())
                us = [complex(u.pos) for u in a.get_all_users()]
                ref = np.array([[abs(u - p) for p in pa] for u in us])
                if d.shape != ref.shape or np.max(np.abs(d - ref)) > 1e-12 * (1 + np.max(ref)):
                    chk.fail(("dtypes", "Cluster", "distance_matrix"), dict(case, cell_type=ctype), observed=d, expected=ref)
            return
        if kind == "Rectangle":
            a = shapes.Rectangle(conv(px - 2), conv(px + 2) + conv(1) * 1j, conv(rot))
            b = shapes.Rectangle(complex(px - 2), complex(px + 2, 1), float(rot))
        elif kind == "CellSquare":
            a = cell.CellSquare(conv(px), conv(r), cell_id=1, rotation=conv(rot))
            b = cell.CellSquare(complex(px), float(r), cell_id=1, rotation=float(rot))
        elif kind == "Circle":
            a, b = shapes.Circle(conv(px), conv(r)), shapes.Circle(complex(px), float(r))
        else:
            ctor = {"Hexagon": shapes.Hexagon, "Cell": cell.Cell, "Cell3Sec": cell.Cell3Sec}[kind]
            if kind == "Hexagon":
                a, b = ctor(conv(px), conv(r), conv(rot)), ctor(complex(px), float(r), float(rot))
            else:
                a = ctor(conv(px), conv(r), cell_id=1, rotation=conv(rot))
                b = ctor(complex(px), float(r), cell_id=1, rotation=float(rot))
        va, vb = np.array(a.vertices), np.array(b.vertices)
        if va.shape != vb.shape or not np.iscomplexobj(va) or np.max(np.abs(va - vb)) > TOL * r:
            chk.fail(("dtypes", kind, "vertices_differ_from_float_parameters"), case, observed=va, expected=vb)
            return
        for qx in (px, px + 1, px + 2, px + 3, px - 1):
            got, want = bool(a.is_point_inside_shape(conv(qx))), bool(b.is_point_inside_shape(complex(qx)))
            if got != want:
                chk.fail(("dtypes", kind, "containment_of_integer_point"), dict(case, point=qx), observed=got, expected=want)
        for ang in (0, 30, 45, 90, -120, 180):
            got = complex(a.get_border_point(conv(ang), conv(1)))
            want = complex(b.get_border_point(float(ang), 1.0))
            if not abs(got - want) <= TOL * r:
                chk.fail(("dtypes", kind, "border_point_of_integer_angle"), dict(case, angle=ang), observed=got, expected=want)
        if kind in ("Cell", "Cell3Sec", "CellSquare"):
            angs = np.array([0, 1, 90, 1, 200])[::2] if form != "pyint" else [0, 90, 200]
            a.add_border_user(angs, np.array([0.5, 1.0, 0.25]))
            b.add_border_user([0.0, 90.0, 200.0], [0.5, 1.0, 0.25])
            pa, pb = [complex(u.pos) for u in a.users], [complex(u.pos) for u in b.users]
            if len(pa) != 3 or max(abs(x - y) for x, y in zip(pa, pb)) > TOL * r:
                chk.fail(("dtypes", kind, "add_border_user_integer_angles"), case, observed=pa, expected=pb)
            su = scripted_defaults()
            with su.installed(restore_state=False):
                a.add_random_users(2 if form == "np_float64" else conv(2), None, conv(0))
            su = scripted_defaults()
            with su.installed(restore_state=False):
                b.add_random_users(2, None, 0.0)
            pa, pb = [complex(u.pos) for u in a.users], [complex(u.pos) for u in b.users]
            if len(pa) != 5 or max(abs(x - y) for x, y in zip(pa, pb)) > TOL * r:
                chk.fail(("dtypes", kind, "add_random_users_integer_parameters"), case, observed=pa, expected=pb)
        chk.nontriv(("dtypes", kind, form))


# ----------------------------------------------------------------------
# Part J: invalid calls (tools/INVALID_CALL_POLICY.md).  C19 quantifies over valid shapes / positions / ratios /
# sizes, so what an invalid call does AS A CALL (raise, which type, accept, change the object) is only recorded as
# an outcome.  Required: afterwards the object is a coherent instance for the property -- every relation holds
# for the state it REPORTS (pos / radius / rotation / vertices / users it lists), it stays usable, later valid
# calls behave like on a fresh object in the same reported configuration, and clusters built afterwards are
# right.  Violations found this way carry the signature after_invalid_call|<what>|<relation>.
# ----------------------------------------------------------------------
def reported_state(obj):
    """only for the outcome 'object_changed' / 'object_unchanged' -- never judged"""
    try:
        return vbfs.digest(vbfs.state_of(obj))
    except Exception:  # noqa
        return None


ERROR_CASES = ["border_user_ratio_list", "border_user_ratio_scalar", "add_user_outside", "add_user_not_a_node",
               "invalid_sector", "invalid_sector_many", "cluster_bad_square_size", "cluster_bad_cell_type",
               "wrap_around_unsupported_size", "cluster_readonly_setters", "cellwrap_readonly_setters",
               "cluster_border_users_bad_ratio", "delete_users_on_empty"]


def coherent_cell(chk, obj, kind, sig, case):
    """the property's relations for the state a cell reports + usability + differential with a fresh cell"""
    centre, r, rot = complex(obj.pos), float(np.real(obj.radius)), obj.rotation
    v = np.array(obj.vertices, dtype=complex)
    mv, _ = model_vertices(kind, centre, r, rot)
    if not same_point_set(v, mv, TOL * r):
        chk.fail(sig + ("vertices_differ_from_model_of_reported_parameters",), case, observed=v, expected=mv)
        return
    vl = [complex(z) for z in v]
    probes = [centre + f * (q - centre) for q in mv for f in (0.9, 1.1)]
    for q in probes:
        if bool(obj.is_point_inside_shape(q)) != inside1(vl, q):
            chk.fail(sig + ("containment_vs_own_vertices",), dict(case, point=q), observed=not inside1(vl, q),
                     expected=inside1(vl, q))
            return
    for usr in obj.users:
        p = complex(usr.pos)
        if bdist1(vl, p) > TOL * r and not inside1(vl, p):
            chk.fail(sig + ("listed_user_outside_the_cell",), case, observed=p,
                     expected="every user the cell lists lies inside the polygon of its own vertices")
            return
        if not kind.startswith("CellWrap(") and (usr.relative_pos is None or
                                                 abs(complex(usr.relative_pos) - (p - centre)) > TOL * r):
            chk.fail(sig + ("listed_user_relative_pos",), case, observed=usr.relative_pos, expected=p - centre)
            return
    if kind.startswith("CellWrap("):
        return
    # later valid calls: like on a fresh cell in the same reported configuration
    base = kind
    fresh = build_shape(base, centre, r if base != "CellSquare" else r, rot)
    got, want = [], []
    for o, acc in ((obj, got), (fresh, want)):
        n0 = len(o.users)
        o.add_border_user([45.0, -100.0], [0.5, 0.999])
        acc.extend(complex(u.pos) for u in o.users[n0:])
        acc.extend(place_users(base, o))
    if len(got) != len(want) or any(abs(x - y) > TOL * r for x, y in zip(got, want)):
        chk.fail(sig + ("later_valid_calls_differ_from_fresh_cell",), case, observed=got, expected=want)
        return
    for p in got:
        if bdist1(vl, p) > TOL * r and not inside1(vl, p):
            chk.fail(sig + ("later_user_outside_the_cell",), case, observed=p, expected="inside")
            return


def coherent_cluster(chk, cl, ctype, sig, case):
    cells = list(cl)
    n = len(cells)
    r = float(np.real(cl.cell_radius))
    got = check_cluster_geometry(chk, cl, n, ctype, r, complex(cl.pos), cl.rotation, case, sig)
    if got is None:
        return
    _, P = got
    su = scripted_defaults(40 * NDIR)
    with su.installed(restore_state=False):
        cl.add_random_users(1, 1, None, 0.3)            # later valid call
    cl.add_border_users(2 if n > 1 else 1, 30.0, 0.5)
    users = []
    for i, c in enumerate(cells):
        kindname = {"simple": "Cell", "3sec": "Cell3Sec", "square": "CellSquare"}[ctype]
        vl = [complex(z) for z in np.array(c.vertices, dtype=complex)]
        for u in c.users:
            p = complex(u.pos)
            users.append(p)
            if bdist1(vl, p) > TOL * r and not inside1(vl, p):
                chk.fail(sig + ("listed_user_outside_its_cell",), dict(case, cell=i + 1, kind=kindname), observed=p,
                         expected="inside the cell that lists it")
                return
    allu = [complex(u.pos) for u in cl.get_all_users()]
    if allu != users:
        chk.fail(sig + ("get_all_users_differs_from_the_cells_lists",), case, observed=allu, expected=users)
        return
    want = np.array([[abs(u - c) for c in P] for u in users]).reshape(len(users), n)
    for name in ("calc_dist_all_users_to_each_cell", "calc_dist_all_users_to_each_cell_no_wrap_around"):
        d = np.asarray(getattr(cl, name)())
        if d.shape != want.shape or (want.size and np.max(np.abs(d - want)) > 1e-12 * (1 + np.max(want))):
            chk.fail(sig + ("distance_matrix_vs_brute_force",), dict(case, method=name), observed=d, expected=want)
            return


def run_error_path(chk, name, kind, rot):
    from pyphysim.cell import cell
    pos, r = 1 + 2j, 2.5
    case = {"part": "error_path", "name": name, "kind": kind, "rotation": rot}
    sig0 = ("after_invalid_call", name)
    with guard(chk, sig0, case):
        chk.count("eval_invalid_calls")
        su = scripted_defaults()
        is_cluster = name.startswith("cluster") or name in ("wrap_around_unsupported_size", "delete_users_on_empty")
        ctype = {"Cell": "simple", "Cell3Sec": "3sec", "CellSquare": "square"}[kind]
        inner = None
        if is_cluster:
            n = 4 if ctype == "square" else 7
            obj = cell.Cluster(cell_radius=r, num_cells=n, pos=pos, cell_type=ctype, rotation=rot)
            if name != "delete_users_on_empty":
                obj.add_border_users([1, 2], [10.0, 200.0], [0.5, 0.9])
        else:
            obj = build_shape(kind, pos, r, rot)
            obj.add_border_user([10.0, 200.0], [0.5, 0.9])
        if name == "cellwrap_readonly_setters":
            inner = obj
            obj = cell.CellWrap(pos + 7, inner, include_users_bool=True)
        node = cell.Node(pos + 40 * r, marker_color="g")
        calls = {
            "border_user_ratio_list": [lambda: obj.add_border_user([0.0, 90.0, 180.0], [0.5, 0.25, 1.5])],
            "border_user_ratio_scalar": [lambda: obj.add_border_user(10.0, -0.25)],
            "add_user_outside": [lambda: obj.add_user(node, relative_pos_bool=False)],
            "add_user_not_a_node": [lambda: obj.add_user(pos)],
            "invalid_sector": [lambda: obj.add_random_user_in_sector(0)],
            "invalid_sector_many": [lambda: obj.add_random_users_in_sector(2, 4, None, 0.3)],
            "cluster_bad_square_size": [lambda: cell.Cluster(r, 5, pos=pos, cell_type="square", rotation=rot)],
            "cluster_bad_cell_type": [lambda: cell.Cluster(r, 7, pos=pos, cell_type="octagon", rotation=rot)],
            "wrap_around_unsupported_size": [lambda: obj.create_wrap_around_cells()],
            "cluster_readonly_setters": [lambda: setattr(obj, "pos", 0j), lambda: setattr(obj, "radius", 1.0),
                                         lambda: setattr(obj, "rotation", 0.0)],
            "cellwrap_readonly_setters": [lambda: setattr(obj, "radius", 1.0), lambda: setattr(obj, "rotation", 0.0)],
            "cluster_border_users_bad_ratio": [lambda: obj.add_border_users(1, [0.0, 90.0], [0.5, 1.5])],
            "delete_users_on_empty": [lambda: obj.delete_all_users(), lambda: obj.delete_all_users(2),
                                      lambda: obj.delete_all_users([1, 3]),
                                      lambda: obj.get_cell_by_id(1).delete_all_users()],
        }
        for k, f in enumerate(calls[name]):
            before = reported_state(obj)
            how = "accepted"
            with su.installed(restore_state=False):
                try:
                    f()
                except Exception as e:  # noqa -- free: any type, late, or not at all
                    how = "raised:" + type(e).__name__
            changed = "object_unchanged" if reported_state(obj) == before else "object_changed"
            chk.outcome("invalid_call", (name, kind, k, how, changed, "draws:%d" % su.draws))
            chk.count("invalid_calls_" + ("raised" if how != "accepted" else "accepted"))
        # required: coherence of what the object reports, usability, later valid calls, later objects
        if is_cluster:
            coherent_cluster(chk, obj, ctype, sig0, case)
        elif inner is not None:
            coherent_cell(chk, obj, "CellWrap(%s)" % kind, sig0, case)
            coherent_cell(chk, inner, kind, sig0 + ("wrapped_cell",), case)
        else:
            coherent_cell(chk, obj, kind, sig0, case)
        if name.startswith("cluster_bad"):
            # class-level state after the failed constructor: the next clusters are right
            for n2, t2 in ((4, "square"), (7, "simple"), (3, "3sec")):
                c2 = cell.Cluster(cell_radius=r, num_cells=n2, pos=pos, cell_type=t2, rotation=rot)
                check_cluster_geometry(chk, c2, n2, t2, r, pos, rot, dict(case, built_afterwards=[n2, t2]),
                                       sig0 + ("cluster_built_afterwards",))
        chk.nontriv(("invalid_call", name, kind, rot))
        chk.outcome("error_paths", (name, kind))


def error_path_jobs():
    for rot in (0, 17):
        for kind in ("Cell", "Cell3Sec", "CellSquare"):
            for name in ERROR_CASES:
                if name.startswith("invalid_sector") and kind != "Cell3Sec":
                    continue
                if name == "cluster_bad_square_size" and kind != "CellSquare":
                    continue
                if name == "wrap_around_unsupported_size" and kind == "CellSquare":
                    continue
                yield name, kind, rot


# ----------------------------------------------------------------------
# Part K: alternative entry points and falsy-but-valid arguments reach the same object
# ----------------------------------------------------------------------
def geometry_view(obj, probes):
    return (np.array(obj.vertices, dtype=complex), [bool(obj.is_point_inside_shape(q)) for q in probes],
            [complex(obj.get_border_point(a, q)) for a in (10.0, 100.0, -125.0) for q in (0.0, 0.5, 1.0)],
            complex(obj.pos), float(np.real(obj.radius)))


def same_view(a, b, tol, ordered):
    va, vb = a[0], b[0]
    ok_v = (va.shape == vb.shape and np.max(np.abs(va - vb)) <= tol) if ordered else same_point_set(va, vb, tol)
    return ok_v and a[1] == b[1] and max(abs(x - y) for x, y in zip(a[2], b[2])) <= tol and \
        abs(a[3] - b[3]) <= tol and abs(a[4] - b[4]) <= tol


def run_entry_points(chk, what, pos, rot):
    from pyphysim.cell import cell, shapes
    case = {"part": "entry_points", "what": what, "pos": pos, "rotation": rot}
    sig0 = ("entry_points", what)
    with guard(chk, sig0, case):
        chk.count("eval_entry_point_cases")
        if what == "rectangle_corner_orders":
            for w, h in ((1.0, 1.0), (2.0, 0.5), (0.25, 3.0)):
                cs = [complex(-w, -h), complex(w, -h), complex(w, h), complex(-w, h)]
                mv = np.array([pos + rot_c(c, rot) for c in cs])
                probes = [pos + rot_c(f * c, rot) for c in cs for f in (0.9, 1.1)] + \
                         [pos + rot_c(complex(f * w, 0), rot) for f in (0.9, 1.1)] + \
                         [pos + rot_c(complex(0, f * h), rot) for f in (0.9, 1.1)]
                want_inside = [True, False] * 6
                views = []
                for i, j in ((0, 2), (2, 0), (1, 3), (3, 1)):
                    rect = shapes.Rectangle(pos + cs[i], pos + cs[j], rot)
                    c2 = dict(case, half_width=w, half_height=h, corners=[i, j])
                    v0 = np.array(rect.vertices, dtype=complex)
                    if not same_point_set(v0, mv, TOL * max(w, h)):
                        chk.fail(sig0 + ("vertices_differ_from_model",), c2, observed=v0, expected=mv)
                        continue
                    v = geometry_view(rect, probes)
                    views.append(v)
                    if v[1] != want_inside:
                        chk.fail(sig0 + ("containment",), c2, observed=v[1], expected=want_inside)
                    elif not same_view(v, views[0], TOL * max(w, h), ordered=True):
                        chk.fail(sig0 + ("differs_from_the_lower_left_upper_right_order",), c2, observed=v[0], expected=views[0][0])
                if w == h and views:
                    sq = cell.CellSquare(pos, 2 * w, cell_id=1, rotation=rot)
                    if not same_view(geometry_view(sq, probes), views[0], TOL * w, ordered=True):
                        chk.fail(sig0 + ("CellSquare_by_side_differs_from_Rectangle_by_corners",), case,
                                 observed=sq.vertices, expected=views[0][0])
        elif what == "falsy_rotation_and_pos":
            r = 1.5
            for kind in SHAPE_KINDS:
                ref = None
                forms = [(0j, 0), (0, 0), (0.0, 0.0), (-0.0, -0.0), (0j, 360), (0, 360.0), (0j, -360), (0j, 720)] \
                    if kind != "Circle" else [(0j, 0), (0, 0), (0.0, 0), (-0.0, 0)]
                for p0, rt in forms:
                    obj = build_shape(kind, p0, r, rt)
                    centre = shape_centre(kind, 0j, r)
                    mvs, _ = model_vertices(kind, centre, r, 0)
                    probes = [centre + f * (q - centre) for q in mvs for f in (0.9, 1.1)]
                    v = geometry_view(obj, probes)
                    ref = v if ref is None else ref
                    if not same_view(v, ref, TOL * r, ordered=True):
                        chk.fail(sig0 + (family(kind), "differs_from_pos_0j_rotation_0"),
                                 dict(case, kind=kind, pos_given=repr(p0), rotation_given=repr(rt)),
                                 observed=v[0], expected=ref[0])
        elif what in ("cluster_argument_forms", "sector_entry_points"):
            r = 2.5
            if what == "sector_entry_points":
                a = cell.Cell3Sec(pos, r, 1, rot)
                b = cell.Cell3Sec(pos, r, 1, rot)
                for obj, many in ((a, False), (b, True)):
                    su = scripted_defaults()
                    with su.installed(restore_state=False):
                        for k in (1, 2, 3):
                            if many:
                                obj.add_random_users_in_sector(2, k, None, 0.3)
                            else:
                                obj.add_random_user_in_sector(k, None, 0.3)
                                obj.add_random_user_in_sector(k, min_dist_ratio=0.3)
                pa, pb = [complex(u.pos) for u in a.users], [complex(u.pos) for u in b.users]
                if pa != pb or len(pa) != 6:
                    chk.fail(sig0 + ("one_by_one_differs_from_many",), case, observed=pa, expected=pb)
                return
            for ctype, n in (("simple", 7), ("3sec", 3), ("square", 4)):
                forms = {
                    "scalar_calls": lambda cl: [cl.add_random_users(i, k, None, m) for i, k, m in ((1, 2, 0.3), (3, 1, 0.0))],
                    "lists": lambda cl: cl.add_random_users([1, 3], [2, 1], None, [0.3, 0.0]),
                    "ndarrays": lambda cl: cl.add_random_users(np.array([1, 3]), np.array([2, 1]), None, np.array([0.3, 0.0])),
                    "list_and_colors": lambda cl: cl.add_random_users([1, 3], [2, 1], ["b", "k"], [0.3, 0.0]),
                    "tuple_ids": lambda cl: cl.add_random_users((1, 3), (2, 1), "g", (0.3, 0.0)),
                }
                bforms = {
                    "scalar_calls": lambda cl: [cl.add_border_users(i, a, q) for i, a, q in ((1, 10.0, 0.5), (3, 200.0, 0.0))],
                    "lists": lambda cl: cl.add_border_users([1, 3], [10.0, 200.0], [0.5, 0.0]),
                    "ndarrays": lambda cl: cl.add_border_users(np.array([1, 3]), np.array([10.0, 200.0]), np.array([0.5, 0.0])),
                    "list_and_colors": lambda cl: cl.add_border_users([1, 3], [10.0, 200.0], [0.5, 0.0], ["b", "k"]),
                    "tuple_ids": lambda cl: cl.add_border_users((1, 3), ([10.0], [200.0]), ([0.5], [0.0]), "g"),
                }
                ref = None
                for form in forms:
                    cl = cell.Cluster(cell_radius=r, num_cells=n, pos=pos, cell_type=ctype, rotation=rot)
                    # the first draws address the cell centre: accepted only if min_dist_ratio got lost on the way
                    su = scripted_defaults(40 * NDIR, lead=(0.5, 0.5))
                    with su.installed(restore_state=False):
                        forms[form](cl)
                    bforms[form](cl)
                    first = cl.get_cell_by_id(1).users[0]
                    if abs(complex(first.pos) - complex(cl.get_cell_by_id(1).pos)) < 0.3 * r * (1 - 1e-12):
                        chk.fail(sig0 + ("min_dist_ratio_ignored",), dict(case, cell_type=ctype, form=form),
                                 observed=first.pos, expected=">= 0.3 r from the centre of cell 1")
                    users = [[complex(u.pos) for u in c.users] for c in cl]
                    colors = [[u.marker_color for u in c.users] for c in cl]
                    d1 = np.asarray(cl.calc_dist_all_users_to_each_cell())
                    d2 = np.asarray(cl.calc_dist_all_users_to_each_cell_no_wrap_around())
                    allu = [complex(u.pos) for u in cl.get_all_users()]
                    c2 = dict(case, cell_type=ctype, form=form)
                    if [len(x) for x in users] != [3, 0, 2] + [0] * (n - 3):
                        chk.fail(sig0 + ("users_per_cell",), c2, observed=[len(x) for x in users], expected=[3, 0, 2])
                        continue
                    if allu != [p for x in users for p in x]:
                        chk.fail(sig0 + ("get_all_users_order",), c2, observed=allu, expected=users)
                    if d1.shape != (5, n) or d1.shape != d2.shape or np.max(np.abs(d1 - d2)) > 0:
                        chk.fail(sig0 + ("two_distance_methods_disagree",), c2, observed=d1, expected=d2)
                    want_col = {"list_and_colors": ["b", "b", "b", "k", "k"], "tuple_ids": ["g"] * 5}.get(form)
                    flat = [x for c in colors for x in c]
                    if want_col is not None and flat != want_col:
                        chk.fail(sig0 + ("user_color",), c2, observed=flat, expected=want_col)
                    if want_col is None and len(set(flat)) != 1:
                        chk.fail(sig0 + ("user_color_None_not_default",), c2, observed=flat, expected="the Node default")
                    ref = users if ref is None else ref
                    if users != ref:
                        chk.fail(sig0 + ("positions_differ_from_scalar_calls",), c2, observed=users, expected=ref)
        chk.nontriv(("entry_points", what, pos, rot))
        chk.outcome("entry_points", (what, rotcond(rot)))


# ----------------------------------------------------------------------
# Part L: several live objects -- users placed alternately, queries interleaved; each equals its solo twin
# ----------------------------------------------------------------------
LIVE_SPECS = [(7, "simple", 17), (7, "simple", 0), (3, "3sec", 30), (4, "square", 45), (4, "simple", -30), (13, "simple", 17)]


def _live_ops():
    """(target, operation) -- every random operation gets its own scripted default stream"""
    return [("A", ("rand", 1, 2, 0.3)), ("B", ("rand", 2, 1, 0.0)), ("A", ("dist",)), ("B", ("border", 1, 10.0, 0.5)),
            ("A", ("border", 3, 200.0, 0.9)), ("B", ("dist",)), ("A", ("rand", [2, 3], [1, 2], 0.3)),
            ("B", ("rand", 3, 2, 0.3)), ("A", ("dist",)), ("B", ("dist",)), ("A", ("delete", 1)), ("B", ("rand", 1, 1, 0.0)),
            ("A", ("dist",)), ("B", ("dist",))]


def _apply_live(cl, op):
    if op[0] == "rand":
        su = scripted_defaults(40 * NDIR)
        with su.installed(restore_state=False):
            cl.add_random_users(op[1], op[2], None, op[3])
        return None
    if op[0] == "border":
        cl.add_border_users(op[1], op[2], op[3])
        return None
    if op[0] == "delete":
        cl.delete_all_users(op[1])
        return None
    d = np.asarray(cl.calc_dist_all_users_to_each_cell())
    users = [complex(u.pos) for c in cl for u in c.users]
    cells = [complex(c.pos) for c in cl]
    return d, users, cells


def run_live_objects(chk, ia, ib):
    from pyphysim.cell import cell
    case = {"part": "live_objects", "specs": [list(LIVE_SPECS[ia]), list(LIVE_SPECS[ib])]}
    sig0 = ("live_objects",)
    with guard(chk, sig0, case):
        chk.count("eval_live_object_pairs")

        def make(i, which):
            n, t, rot = LIVE_SPECS[i]
            return cell.Cluster(cell_radius=(1.0, 2.5)[which], num_cells=n, pos=POS[1 + which], cell_type=t, rotation=rot)

        A, B = make(ia, 0), make(ib, 1)
        together = {"A": [], "B": []}
        for tgt, op in _live_ops():
            res = _apply_live(A if tgt == "A" else B, op)
            if res is not None:
                d, users, cells = res
                want = np.array([[abs(u - c) for c in cells] for u in users]).reshape(len(users), len(cells))
                if d.shape != want.shape or (want.size and np.max(np.abs(d - want)) > 1e-12 * (1 + np.max(want))):
                    chk.fail(sig0 + ("distance_matrix_with_another_cluster_alive",), dict(case, target=tgt),
                             observed=d, expected=want)
                together[tgt].append((d.tolist(), users))
        for tgt, i, which in (("A", ia, 0), ("B", ib, 1)):
            solo = make(i, which)
            got = []
            for t2, op in _live_ops():
                if t2 == tgt:
                    res = _apply_live(solo, op)
                    if res is not None:
                        got.append((res[0].tolist(), res[1]))
            if got != together[tgt]:
                chk.fail(sig0 + ("differs_from_the_same_operations_on_a_lone_cluster",), dict(case, target=tgt),
                         observed=together[tgt][-1][1], expected=got[-1][1])
        chk.nontriv(("live", ia, ib))
        chk.outcome("live_object_pairs", (LIVE_SPECS[ia][1], LIVE_SPECS[ib][1]))


# ----------------------------------------------------------------------
def jobs(tier):
    """(cluster-sequence jobs [run first, each in a fork of the still clean worker], light jobs dealt
    round-robin, split E2 jobs executed by every shard on its share of the subtrees)"""
    out = []
    for cfg in shape_configs(tier):
        out.append(("contains", cfg + (41 if tier == "thorough" else 29,)))
        out.append(("border", cfg))
        if cfg[0] in ("Cell", "Cell3Sec", "CellSquare"):
            out.append(("border_user", cfg))
    for cfg in cluster_configs(tier):
        out.append(("cluster", cfg))
    for cfg in pp_configs(tier):
        out.append(("pp", cfg))
    for kind in HIST_KINDS:
        # depth 3 everywhere in thorough; in quick for the shapes whose queries are cheap (effects that only
        # show from the third step), depth 2 for Cell3Sec and the CellWrap kinds
        depth = 3 if (tier == "thorough" or "Cell3Sec" not in kind and not kind.startswith("CellWrap(")) else 2
        for h in histories(kind, depth):
            out.append(("history", (kind, h)))
    for cfg in error_path_jobs():
        out.append(("error_path", cfg))
    for what in ("rectangle_corner_orders", "falsy_rotation_and_pos", "cluster_argument_forms", "sector_entry_points"):
        for pos in (0j, 1 + 2j):
            for rot in (0, 17, 90):
                if what == "falsy_rotation_and_pos" and (pos != 0j or rot != 0):
                    continue
                out.append(("entry_points", (what, pos, rot)))
    for ia in range(len(LIVE_SPECS)):
        for ib in range(len(LIVE_SPECS)):
            out.append(("live_objects", (ia, ib)))
    for kind in SHAPE_KINDS + ["Cluster", "calc_rotated_pos"]:
        out.append(("aliasing", (kind,)))
    out.append(("pp_aliasing", ()))
    for kind in ("Hexagon", "Rectangle", "Circle", "Cell", "Cell3Sec", "CellSquare", "Cluster"):
        for form in DTYPE_FORMS:
            out.append(("dtypes", (kind, form)))
    rj = random_jobs(tier)
    rnd = [("random", j) for j in rj if j[3] == 0]
    split = [("random", j) for j in rj if j[3] > 0]
    # interleave the E2 jobs with the lighter ones so that round-robin shards are balanced
    res = []
    per = max(1, len(rnd) // max(1, len(out))) + 1
    it = iter(rnd)
    for j in out:
        res.append(j)
        for _ in range(per):
            nxt = next(it, None)
            if nxt is not None:
                res.append(nxt)
    res.extend(it)
    seqs = [("cluster_sequence", (q,)) for q in cluster_sequences(tier)]
    return seqs, res, split


def run_job(chk, job, shard_i=0, shard_n=1):
    part, cfg = job
    if part == "contains":
        run_contains(chk, *cfg)
    elif part == "border":
        run_border(chk, *cfg)
    elif part == "border_user":
        run_border_user(chk, *cfg)
    elif part == "cluster":
        run_cluster(chk, *cfg)
    elif part == "pp":
        run_pp(chk, *cfg)
    elif part == "history":
        run_history(chk, *cfg)
    elif part == "aliasing":
        run_aliasing(chk, *cfg)
    elif part == "pp_aliasing":
        run_pp_aliasing(chk)
    elif part == "dtypes":
        run_dtypes(chk, *cfg)
    elif part == "cluster_sequence":
        run_cluster_sequence(chk, *cfg)
    elif part == "error_path":
        run_error_path(chk, *cfg)
    elif part == "entry_points":
        run_entry_points(chk, *cfg)
    elif part == "live_objects":
        run_live_objects(chk, *cfg)
    elif part == "random":
        c, nusers, bound, split = cfg
        run_random(chk, c, bound, nusers, split, shard_i, shard_n)


def main(chk: Check):
    # import the modules under test (and matplotlib behind them) ONCE, before any fork
    from pyphysim.cell import cell, shapes  # noqa: F401
    from pyphysim.pointprocess import pointprocess  # noqa: F401
    tier = chk.tier
    rj = random_jobs(tier)
    plan = sorted(set((n, b) for _, n, b, _ in rj))
    chk.assume("points within %g r of a polygon edge are ties (either answer allowed): excluded and counted" % TOL)
    chk.assume("numpy.random.random_sample is the only source of randomness of add_random_user(s) and of "
               "pointprocess; it is replaced by a scripted seam, every draw is an E2 choice point")
    chk.assume("random placement through CellWrap is outside the domain (CellWrap.users reports the wrapped "
               "cell's users); CellWrap is covered for containment, border points and wrap-around layout")
    chk.assume("Cell3Sec polygons are star-shaped w.r.t. the cell centre, so the border point per angle is unique")
    chk.assume("a Rectangle / CellSquare is sized by its corners: the inherited `radius` setter is not a way to "
               "resize it and is left out of the setter histories (pos and rotation setters are in)")
    chk.assume("documented parameter types only: an int `ratio` for add_border_user and an int min_dist_ratio for "
               "Cluster.add_random_users are rejected by the library's own asserts and are not in the domain; "
               "float32 inputs are not in the domain (their rounding exceeds the 1e-9 r tolerance)")
    chk.assume("every cluster sequence runs in a fork of a worker that has not built any cluster, so class-level "
               "state starts empty for each sequence")
    chk.extra["setter_history_depth"] = "3" if tier == "thorough" else "3 (2 for Cell3Sec and the CellWrap kinds)"
    chk.assume("invalid calls (tools/INVALID_CALL_POLICY.md): the property quantifies over valid shapes, positions, "
               "ratios and sizes; whether an invalid call raises, which exception, and whether it changes the object "
               "are recorded as outcomes only; required afterwards: the relations of the property hold for the state "
               "the object reports, it stays usable, later valid calls equal those on a fresh object, clusters built "
               "afterwards are right")
    chk.extra["quick_tier_design"] = ("covering design over pos x radius x rotation for containment, border points, "
                                      "clusters and E2 (every kind x every rotation; all pos/radius pairs); thorough "
                                      "= full product")
    chk.extra["tolerance_relative_to_radius"] = TOL
    chk.extra["boundary_probe_offset_relative_to_radius"] = PROBE
    chk.extra["e2_deviation_bounds_completed"] = [
        "num_users=%d, <=%d non-default draws: %d configurations" % (n, b, sum(1 for j in rj if j[1:3] == (n, b)))
        for n, b in plan]
    chk.extra["e2_alphabet"] = ALPHA
    chk.extra["e2_default_stream"] = "%d directions at %.4f r, cyclic" % (NDIR, DEFAULT_RATIO)
    seqs, light, split = jobs(tier)

    def worker(i, n, c):
        for job in shard(iter(seqs), i, n):       # first: the worker has not built any cluster yet
            run_job(c, job)
        for job in shard(iter(light), i, n):
            run_job(c, job)
        for job in split:
            run_job(c, job, i, n)

    run_shards(chk, worker)
    if chk.counters.get("oracle_input_unavailable", 0) and not chk.counters.get("eval_wrapped_cells", 0):
        raise Broken("vacuous: the wrap-around part could not read the wrapped cells of any cluster "
                     "(no public accessor; private names tried: _wrapped_cells, wrapped_cells)")
    chk.sample({"part": "contains", "kind": "Rectangle4x1", "pos": POS[1], "radius": 1.0, "rotation": 30})
    chk.sample({"part": "random", "kind": "CellSquare", "sector": 0, "pos": 0j, "radius": 1.0, "rotation": 45,
                "min_dist_ratio": 0.0, "num_users": 2, "choices": [5, 5]})
    chk.sample({"part": "cluster", "num_cells": 19, "cell_type": "3sec", "cell_radius": 2.5, "pos": POS[2],
                "rotation": 123.4})
    chk.require_outcomes("containment", 10)
    chk.require_outcomes("border_edges_hit", 8)
    chk.require_outcomes("placement_attempts", 3)
    chk.require_outcomes("cluster_layouts", 12)
    chk.require_outcomes("distance_matrix_shapes", 6)
    chk.require_outcomes("history_last_event", 10)


def replay(case, chk: Check):
    part = case.get("part")
    if part == "contains":
        run_contains(chk, case["kind"], complex(case["pos"]), case["radius"], case["rotation"],
                     41 if chk.tier == "thorough" else 29,
                     point=complex(case["point"]) if "point" in case else None)
    elif part == "border":
        if "angle" in case:
            run_border(chk, case["kind"], complex(case["pos"]), case["radius"], case["rotation"],
                       angles=[case["angle"]], ratios=[1.0, case.get("ratio")])
        else:
            run_border(chk, case["kind"], complex(case["pos"]), case["radius"], case["rotation"])
    elif part == "border_user":
        run_border_user(chk, case["kind"], complex(case["pos"]), case["radius"], case["rotation"])
    elif part == "cluster":
        run_cluster(chk, case["num_cells"], case["cell_type"], case["cell_radius"], complex(case["pos"]),
                    case["rotation"])
    elif part == "pp":
        run_pp(chk, case["fn"], case["num_points"], case["a"], case["b"], only=case.get("draws"))
    elif part == "random":
        cfg = (case["kind"], case["sector"], complex(case["pos"]), case["radius"], case["rotation"],
               case["min_dist_ratio"])
        region = placement_region(cfg[0], cfg[1], cfg[2], cfg[3], cfg[4])
        run = make_random_run(chk, cfg, case.get("num_users", 1), region)
        run(Ctx(list(case.get("choices", [])), None, HORIZON))
    elif part == "history":
        hist = tuple((nm, v) for nm, v in case["events"])
        run_history(chk, case["kind"], hist)
    elif part == "cluster_sequence":
        run_cluster_sequence(chk, tuple(case["sequence"]))
    elif part == "aliasing":
        if case["kind"] == "pointprocess":
            run_pp_aliasing(chk)
        else:
            run_aliasing(chk, case["kind"])
    elif part == "dtypes":
        run_dtypes(chk, case["kind"], case["form"])
    elif part == "error_path":
        run_error_path(chk, case["name"], case["kind"], case["rotation"])
    elif part == "entry_points":
        run_entry_points(chk, case["what"], complex(case["pos"]), case["rotation"])
    elif part == "live_objects":
        ia, ib = [LIVE_SPECS.index(tuple(x)) for x in case["specs"]]
        run_live_objects(chk, ia, ib)
    else:
        raise Broken("unknown replay case %r" % (case,))
