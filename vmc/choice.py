"""E2 - stateless deviation-bounded explorer over environment answers.

The code under test runs inside `run(ctx)`.  Every scripted seam asks
`ctx.choose(arity, label)`; answer 0 is the default environment answer, any
other answer is a *deviation* (cost given by `cost(label, alt)`, default 1).
`explore(run, bound)` executes `run` for EVERY choice vector whose total
deviation cost is <= bound: replay the prefix, then take 0 everywhere.

Replaying a prefix checks determinism: the label and arity seen at each
replayed point must equal what was recorded when the prefix was generated;
any divergence is a hard error (`Divergence`), never a verdict.
"""
from .report import Broken


class Divergence(Broken):
    pass


class Horizon(Exception):
    """More choice points than the harness horizon: livelock in the code
    under test (e.g. a rejection loop that never accepts)."""


class Ctx:
    def __init__(self, prefix, expect, horizon):
        self.prefix = prefix
        self.expect = expect        # list of (arity, label) for the prefix or None
        self.horizon = horizon
        self.points = []            # (arity, label)
        self.choices = []

    def choose(self, arity, label=""):
        i = len(self.choices)
        if i >= self.horizon:
            raise Horizon("horizon of %d choice points exceeded at %r" % (self.horizon, label))
        if i < len(self.prefix):
            c = self.prefix[i]
            if self.expect is not None and i < len(self.expect):
                ea, el = self.expect[i]
                if ea != arity or el != label:
                    raise Divergence("replay diverged at point %d: recorded (%r,%r) now (%r,%r)"
                                     % (i, ea, el, arity, label))
            if not (0 <= c < arity):
                raise Divergence("replayed choice %d out of range %d at point %d (%r)"
                                 % (c, arity, i, label))
        else:
            c = 0
        self.points.append((arity, label))
        self.choices.append(c)
        return c

    @property
    def deviations(self):
        return sum(1 for c in self.choices if c)


class Explorer:
    def __init__(self, run, bound, cost=None, horizon=10000, max_executions=None):
        self.run = run
        self.bound = bound
        self.cost = cost or (lambda label, alt: 1)
        self.horizon = horizon
        self.max_executions = max_executions
        self.executions = 0
        self.capped = False
        self.max_points = 0
        self.count_root = True

    def _exec(self, prefix, expect):
        ctx = Ctx(prefix, expect, self.horizon)
        self.run(ctx)
        self.executions += 1
        self.max_points = max(self.max_points, len(ctx.points))
        if len(ctx.choices) < len(prefix):
            raise Divergence("execution consumed %d of %d replayed choices"
                             % (len(ctx.choices), len(prefix)))
        return ctx

    def explore_sharded(self, shard_index, nshards):
        """Exhaustive exploration split over `nshards` workers: every worker executes the
        default run (cheap), shard 0 judges/counts it (`self.is_root_owner`), and the subtrees
        below the FIRST-level alternatives are dealt round-robin.  The union over all shards
        is exactly the set of executions of `explore()`."""
        bound = self.bound if isinstance(self.bound, tuple) else (self.bound,)
        self.count_root = (shard_index == 0)
        ctx = self._exec([], [])
        pts, ch = ctx.points, ctx.choices
        k = 0
        for i in range(len(pts)):
            arity, label = pts[i]
            for alt in range(1, arity):
                c = self.cost(label, alt)
                if c is None:
                    continue
                c = c if isinstance(c, tuple) else (c,)
                if any(x > b for x, b in zip(c, bound)):
                    continue
                if k % nshards == shard_index:
                    self.explore(ch[:i] + [alt], pts[:i + 1], c)
                k += 1

    def explore(self, prefix=(), expect=(), used=None):
        """`bound` and the values of `cost` may be ints or equal-length tuples
        (independent budgets, e.g. (crashes, skips, clock jumps)); a cost of None
        means 'alternative not explored at this point' (stated restriction)."""
        bound = self.bound if isinstance(self.bound, tuple) else (self.bound,)
        if used is None:
            used = (0,) * len(bound)
        if self.max_executions is not None and self.executions >= self.max_executions:
            self.capped = True
            return
        ctx = self._exec(list(prefix), list(expect))
        pts, ch = ctx.points, ctx.choices
        for i in range(len(prefix), len(pts)):
            arity, label = pts[i]
            for alt in range(1, arity):
                c = self.cost(label, alt)
                if c is None:
                    continue
                c = c if isinstance(c, tuple) else (c,)
                tot = tuple(u + x for u, x in zip(used, c))
                if any(t > b for t, b in zip(tot, bound)):
                    continue
                self.explore(ch[:i] + [alt], pts[:i + 1], tot)


def check_determinism(run, prefix=(), horizon=10000):
    """run the same choice vector twice; the recorded points must agree."""
    a = Ctx(list(prefix), None, horizon)
    ra = run(a)
    b = Ctx(list(prefix), a.points[:len(prefix)], horizon)
    rb = run(b)
    if a.points != b.points or a.choices != b.choices:
        raise Divergence("two runs of the same choice vector recorded different points")
    return ra, rb
