"""Seams: module-attribute patching, virtual clock, scripted random sources."""
import contextlib

import numpy as np

_MISSING = object()


@contextlib.contextmanager
def patched(*triples):
    """patched((module_or_obj, "attr", value), ...): set attributes, restore on exit.
    Works for names a module resolves from builtins too (e.g. `open`)."""
    saved = []
    try:
        for obj, name, val in triples:
            saved.append((obj, name, obj.__dict__.get(name, _MISSING)
                          if hasattr(obj, "__dict__") else getattr(obj, name, _MISSING)))
            setattr(obj, name, val)
        yield
    finally:
        for obj, name, old in reversed(saved):
            if old is _MISSING:
                try:
                    delattr(obj, name)
                except AttributeError:
                    pass
            else:
                setattr(obj, name, old)


class VirtualClock:
    """callable replacement for time.time; `advance` is called by the harness."""

    def __init__(self, t0=1.0e9, tick=0.001):
        self.t = t0
        self.tick = tick
        self.calls = 0

    def __call__(self):
        self.calls += 1
        self.t += self.tick
        return self.t

    def advance(self, dt):
        self.t += dt

    # usable where the library holds the MODULE (`import time; time.time()`) as well as where it
    # holds the function (`from time import time`)
    def time(self):
        return self()

    monotonic = perf_counter = time

    def time_ns(self):
        return int(self() * 1e9)

    monotonic_ns = perf_counter_ns = time_ns

    def installed(self, *modules, package="pyphysim"):
        """Own every clock reading of the library however it is spelt: time.time / monotonic /
        perf_counter (and the _ns variants) are replaced in the time module itself (covers
        `import time; time.time()`), and every name in a loaded module of `package` (plus the given
        modules) that is bound to one of those functions (covers `from time import time, monotonic`)
        is rebound to this clock."""
        import sys
        import time as _t
        names = ("time", "monotonic", "perf_counter", "time_ns", "monotonic_ns", "perf_counter_ns")
        real = {}
        for n in names:
            real[id(getattr(_t, n))] = n
        mods = list(modules)
        for name, m in list(sys.modules.items()):
            if m is not None and (name == package or name.startswith(package + ".")) and m not in mods:
                mods.append(m)
        triples = []
        for m in mods:
            for attr, val in list(vars(m).items()):
                n = real.get(id(val))
                if n is not None and getattr(_t, n) is val:
                    triples.append((m, attr, self if n == "time" else getattr(self, n)))
        triples += [(_t, n, self if n == "time" else getattr(self, n)) for n in names]
        return patched(*triples)


_BINDINGS_CACHE = {}


def _uniform_bindings(names, modules, package):
    """[(module, attribute, numpy.random name)] to rebind; cached per number of loaded modules (the scan of
    sys.modules is too slow to repeat for each of 10^5 executions; a module loaded later changes the key)"""
    import sys
    key = (names, tuple(id(m) for m in modules), package, len(sys.modules))
    hit = _BINDINGS_CACHE.get(key)
    if hit is not None and all(getattr(np.random, n) is f for n, f in hit[1]):
        return hit[0]
    names = [n for n in names if hasattr(np.random, n)]
    real = {}
    for n in names:
        real.setdefault(id(getattr(np.random, n)), n)
    mods = list(modules)
    for name, m in list(sys.modules.items()):
        if m is not None and (name == package or name.startswith(package + ".")) and m not in mods:
            mods.append(m)
    out = []
    for m in mods:
        for attr, val in list(vars(m).items()):
            n = real.get(id(val))
            if n is not None and getattr(np.random, n) is val:
                out.append((m, attr, n))
    out += [(np.random, n, n) for n in names]
    _BINDINGS_CACHE.clear()
    _BINDINGS_CACHE[key] = (out, [(n, getattr(np.random, n)) for n in names])
    return out


class ScriptedUniform:
    """replacement for the uniform entry points of the numpy global generator (random_sample / random / rand /
    ranf / sample / uniform): answers come from `answer(draw_number)` (an E2 choice point or a fixed cycle).
    `installed()` patches all of them at once; the single methods stay usable with `patched`."""

    def __init__(self, answer):
        self.answer = answer
        self.draws = 0

    def random_sample(self, size=None):
        if size is None:
            self.draws += 1
            return float(self.answer(self.draws))
        n = int(np.prod(size))
        out = np.empty(n)
        for i in range(n):
            self.draws += 1
            out[i] = self.answer(self.draws)
        return out.reshape(size)

    def rand(self, *shape):
        return self.random_sample(shape if shape else None)

    # the other spellings of "uniform numbers from the global generator"
    def random(self, size=None):
        return self.random_sample(size)

    ranf = sample = random

    def uniform(self, low=0.0, high=1.0, size=None):
        """uniform(low, high, size) = low + (high - low) * u, one scripted answer per number drawn
        (size None with array-like low/high broadcasts like numpy does)"""
        if size is None:
            shape = np.broadcast(np.asarray(low), np.asarray(high)).shape
            size = shape if shape else None
        u = self.random_sample(size)
        return low + (np.asarray(high) - np.asarray(low)) * u if size is not None \
            else float(low) + (float(high) - float(low)) * u

    UNIFORM_NAMES = ("random_sample", "random", "rand", "ranf", "sample", "uniform")

    def installed(self, *modules, package="pyphysim", seed=0, restore_state=True):
        """Own every uniform draw of the library's use of the numpy GLOBAL generator however it is spelt:
        np.random.random_sample / random / rand / ranf / sample / uniform are replaced in the numpy.random
        module itself (covers `np.random.uniform(...)`), and every name in a loaded module of `package`
        (plus the given modules) bound to one of those functions (covers `from numpy.random import rand`)
        is rebound to this object.  The global generator is seeded with `seed` on entry, so that any draw
        that is NOT scripted (normal, choice, ...) is at least deterministic; its state is restored on exit
        (restore_state=False skips the ~70 us save/restore for explorers that install it 10^5 times)."""
        import contextlib
        bindings = _uniform_bindings(self.UNIFORM_NAMES, modules, package)
        triples = [(m, attr, getattr(self, n)) for m, attr, n in bindings]

        @contextlib.contextmanager
        def ctx():
            state = np.random.get_state() if restore_state else None
            if seed is not None:
                np.random.seed(seed)
            try:
                with patched(*triples):
                    yield self
            finally:
                if state is not None:
                    np.random.set_state(state)
        return ctx()
